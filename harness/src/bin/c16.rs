//! C16 — per-site cosmetic resources contain exactly the rules scoped to that host.
//! Correspondence (model = C16_Model.v, generic stores = C17_Model.v):
//!   * label functions: the hooks `get_entity_hashes_from_labels`, `get_hostname_hashes_from_labels`,
//!     `get_hashes_from_labels`, `get_hostname_without_public_suffix` (hashes mapped back to strings
//!     by hashing every substring of the host) vs `entity_strings` / `hostname_strings` /
//!     `label_strings`, and vs the L0 list `S_host`;
//!   * `dump_cosmetic(&engine)`: the six per-host bins and the misc store vs `build_cache`;
//!   * `Engine::url_cosmetic_resources(url)`: hide_selectors, procedural_actions, exceptions,
//!     injected scriptlets (as the set of `+js(..)` argument strings whose `try{}` block is present)
//!     and generichide vs `hostname_cosmetic_resources`.
//! Oracle (independent of Coq): a covers-based reference working from the rule text and the psl
//! answer (contract-checked), with its own label splitting, CSS key scanner and JSON rendering.
use adblock::cosmetic_filter_cache::ProceduralOrActionFilter;
use adblock::filters::cosmetic::verif as cv;
use adblock::filters::cosmetic::{CosmeticFilter, CosmeticFilterMask, CosmeticFilterOperator};
use adblock::lists::{parse_filter, ParsedFilter};
use adblock::request::Request;
use adblock::resources::{MimeType, PermissionMask, Resource, ResourceType};
use adblock::url_parser::verif::get_host_domain;
use adblock::utils::fast_hash;
use adblock::verif_hooks::dump_cosmetic;
use adblock::Engine;
use implrun::*;
use serde_json::{json, Value};
use std::collections::{BTreeMap, BTreeSet, HashMap};

// ------------------------------------------------------------------------------ vocabulary
const HOSTS: &[&str] = &[
    "example.com", "sub.example.com", "a.b.example.com", "deep.a.b.example.com", "example.co.uk",
    "www.example.co.uk", "a.b.example.co.uk", "co.uk", "com", "localhost", "foo.net", "x.foo.net",
    "bar.example.org", "example.com.evil.org", "bücher.example", "192.168.0.1", "example.com.",
    "a.example.com", "ample.com", "xexample.com", "example.co.jp", "b.example.github.io", "github.io",
];
const SELECTORS: &[&str] = &[
    ".ad", ".banner", "#top", "div.ad", ".ad > a", "#x\\:y", "[href]", ".", "a\\.b", "#\\31 0", ".ad:hover",
    "div", ".b\\", "##", ".x1",
];
const STYLES: &[&str] = &["color: red", "display: block !important", "margin: 0"];
const SCRIPTS: &[&str] = &["set, a, 1", "set, b, 2", "abort, x", "acis, y", "noop", "abort, x.y", "set, a, 2", "perm, z", "p1, z", "perm, z"];

fn b64(data: &[u8]) -> String {
    const T: &[u8; 64] = b"ABCDEFGHIJKLMNOPQRSTUVWXYZabcdefghijklmnopqrstuvwxyz0123456789+/";
    let mut o = String::new();
    for ch in data.chunks(3) {
        let b = [ch[0], *ch.get(1).unwrap_or(&0), *ch.get(2).unwrap_or(&0)];
        let n = ((b[0] as u32) << 16) | ((b[1] as u32) << 8) | b[2] as u32;
        o.push(T[(n >> 18) as usize & 63] as char);
        o.push(T[(n >> 12) as usize & 63] as char);
        o.push(if ch.len() > 1 { T[(n >> 6) as usize & 63] as char } else { '=' });
        o.push(if ch.len() > 2 { T[n as usize & 63] as char } else { '=' });
    }
    o
}
fn simple(name: &str, aliases: &[&str], content: &str) -> Resource {
    simple_perm(name, aliases, content, 0)
}
fn simple_perm(name: &str, aliases: &[&str], content: &str, perm: u8) -> Resource {
    Resource {
        name: name.to_string(),
        aliases: aliases.iter().map(|s| s.to_string()).collect(),
        kind: ResourceType::Mime(MimeType::ApplicationJavascript),
        content: b64(content.as_bytes()),
        dependencies: vec![],
        permission: PermissionMask::from_bits(perm),
    }
}
fn resources() -> Vec<Resource> {
    vec![
        simple("set.js", &["set-constant.js"], "SET({{1}},{{2}});"),
        simple("abort.js", &["acis.js"], "ABORT[{{1}}];"),
        simple("noop.js", &[], "NOOP();"),
        simple_perm("perm.js", &[], "PERM[{{1}}];", 3),
        simple_perm("p1.js", &[], "P1[{{1}}];", 1),
    ]
}

fn label_cut(r: &mut Rng, host: &str) -> String {
    let labels: Vec<&str> = host.split('.').collect();
    let n = labels.len();
    let a = r.below(n);
    let b = r.range(a + 1, n);
    labels[a..b].join(".")
}

fn gen_location(r: &mut Rng, page: &str) -> String {
    let host = if r.chance(3, 5) { page } else { r.pick(HOSTS) };
    let name = match r.below(9) {
        0 | 1 => host.to_string(),
        2 | 3 | 4 => label_cut(r, host),
        5 => {
            let k = r.range(1, host.len().min(4));
            host.chars().skip(k).collect()
        }
        6 => format!("{}{}", r.pick(&["x", "sub.", "a."]), host),
        7 => host.split('.').next().unwrap().to_string(),
        _ => r.pick(&["example", "co", "uk", "com", "b.example", "example.co", "foo", "localhost", "github", "evil"]).to_string(),
    };
    let ent = if r.chance(1, 3) { ".*" } else { "" };
    let neg = if r.chance(1, 5) { "~" } else { "" };
    format!("{}{}{}", neg, name, ent)
}

fn gen_rule(r: &mut Rng, page: &str) -> String {
    let nloc = match r.below(10) {
        0 => 0,
        1 | 2 | 3 | 4 | 5 => 1,
        6 | 7 => 2,
        _ => 3,
    };
    let locs: Vec<String> = (0..nloc).map(|_| gen_location(r, page)).collect();
    let unhide = r.chance(1, 4);
    let sep = if unhide { "#@#" } else { "##" };
    let body = match r.below(10) {
        0 | 1 => {
            if unhide && r.chance(1, 3) {
                "+js()".to_string()
            } else {
                format!("+js({})", r.pick(SCRIPTS))
            }
        }
        2 => format!("{}:style({})", r.pick(SELECTORS), r.pick(STYLES)),
        3 => match r.below(3) {
            0 => format!("{}:remove()", r.pick(SELECTORS)),
            1 => format!("{}:remove-attr(onclick)", r.pick(SELECTORS)),
            _ => format!("{}:remove-class(advert)", r.pick(SELECTORS)),
        },
        _ => r.pick(SELECTORS).to_string(),
    };
    format!("{}{}{}", locs.join(","), sep, body)
}

fn gen_rules(r: &mut Rng, page: &str) -> Vec<String> {
    let n = r.range(1, 10);
    let mut v: Vec<String> = vec![];
    for _ in 0..n {
        if !v.is_empty() && r.chance(1, 10) {
            let d = v[r.below(v.len())].clone();
            v.push(d);
        }
        v.push(gen_rule(r, page));
    }
    if r.chance(1, 3) {
        let ph = if r.chance(2, 3) { page } else { r.pick(HOSTS) };
        let h = if r.chance(1, 2) { ph.to_string() } else { label_cut(r, ph) };
        // NetworkFilter::parse strips a leading "www." from hostname-anchored rules (network
        // matching is C02's subject): keep the generichide hosts free of it
        let h = h.trim_start_matches("www.").to_string();
        if !h.is_empty() {
            v.push(format!("@@||{}^$generichide", h));
        }
    }
    v
}

fn gen_page_host(r: &mut Rng) -> String {
    let h = r.pick(HOSTS);
    match r.below(6) {
        0 => format!("www.{}", h),
        1 => format!("x.y.{}", h),
        _ => h.to_string(),
    }
}

// ------------------------------------------------------------------------------ reference
/// Leading class/id key (same statement as in c17.rs, ASCII vocabulary here).
fn ref_key(sel: &str) -> Option<String> {
    let cs: Vec<char> = sel.chars().collect();
    if cs.is_empty() || (cs[0] != '.' && cs[0] != '#') {
        return None;
    }
    let mut out = String::new();
    out.push(cs[0]);
    let (mut i, mut items, mut bad) = (1, 0, false);
    while i < cs.len() {
        let c = cs[i];
        if c == '\\' {
            let mut j = i + 1;
            while j < cs.len() && cs[j].is_ascii_hexdigit() {
                j += 1;
            }
            if j > i + 1 && j < cs.len() && cs[j] == ' ' {
                let hex: String = cs[i + 1..j].iter().collect();
                match u32::from_str_radix(&hex, 16).ok().and_then(char::from_u32) {
                    Some(ch) => out.push(ch),
                    None => bad = true,
                }
                i = j + 1;
            } else if i + 1 < cs.len() && cs[i + 1] != '\n' {
                out.push(cs[i + 1]);
                i += 2;
            } else {
                break;
            }
            items += 1;
        } else if c == '-' || c == '_' || c.is_alphanumeric() {
            out.push(c);
            i += 1;
            items += 1;
        } else {
            break;
        }
    }
    if items == 0 || bad { None } else { Some(out) }
}

#[derive(Clone, Debug, PartialEq, Eq, PartialOrd, Ord)]
enum Content {
    Hide(String),
    Proc(String), // canonical JSON value text
    Script(String),
}

struct TextRule {
    pos: Vec<String>, // location names, entity suffix and ~ stripped, idna applied
    neg: Vec<String>,
    unhide: bool,
    content: Content,
}

fn to_ascii(loc: &str) -> Option<String> {
    if loc.is_ascii() {
        Some(loc.to_string())
    } else {
        match idna::domain_to_ascii(loc) {
            Ok(x) if !x.is_empty() => Some(x),
            _ => None,
        }
    }
}

/// Mini-parser for the generator's grammar (independent of the crate's parser).
fn parse_text(line: &str) -> Option<TextRule> {
    let (before, unhide, after) = if let Some(i) = line.find("#@#") {
        (&line[..i], true, &line[i + 3..])
    } else if let Some(i) = line.find("##") {
        (&line[..i], false, &line[i + 2..])
    } else {
        return None;
    };
    let mut pos = vec![];
    let mut neg = vec![];
    for part in before.split(',') {
        if part.is_empty() {
            continue;
        }
        let (n, p) = match part.strip_prefix('~') {
            Some(p) => (true, p),
            None => (false, part),
        };
        let p = p.strip_suffix(".*").unwrap_or(p);
        let p = to_ascii(p)?;
        if n { neg.push(p) } else { pos.push(p) }
    }
    let after = after.trim();
    let canon = |sel: &str, action: Value| -> Content {
        let mut o = serde_json::Map::new();
        o.insert("selector".into(), json!([{"type": "css-selector", "arg": sel}]));
        o.insert("action".into(), action);
        Content::Proc(Value::Object(o).to_string())
    };
    let content = if after.starts_with("+js(") && after.ends_with(')') {
        Content::Script(after[4..after.len() - 1].to_string())
    } else if let (Some(i), true) = (after.find(":style("), after.ends_with(')')) {
        canon(&after[..i], json!({"type": "style", "arg": &after[i + 7..after.len() - 1]}))
    } else if let (Some(i), true) = (after.find(":remove-attr("), after.ends_with(')')) {
        canon(&after[..i], json!({"type": "remove-attr", "arg": &after[i + 13..after.len() - 1]}))
    } else if let (Some(i), true) = (after.find(":remove-class("), after.ends_with(')')) {
        canon(&after[..i], json!({"type": "remove-class", "arg": &after[i + 14..after.len() - 1]}))
    } else if let Some(s) = after.strip_suffix(":remove()") {
        canon(s, json!({"type": "remove"}))
    } else {
        Content::Hide(after.to_string())
    };
    Some(TextRule { pos, neg, unhide, content })
}

/// S host of DESIGN.md §4 C16, from the psl answer `dom`, by label splitting.
fn s_host(host: &str, dom: &str) -> BTreeSet<String> {
    let mut s = BTreeSet::new();
    let suffixes = |x: &str| -> Vec<String> {
        let labels: Vec<&str> = x.split('.').collect();
        (0..labels.len()).map(|i| labels[i..].join(".")).collect()
    };
    for x in suffixes(host) {
        if x.len() >= dom.len() {
            s.insert(x);
        }
    }
    if let Some((_, ps)) = dom.split_once('.') {
        let hw = &host[..host.len() - ps.len() - 1];
        for x in suffixes(hw) {
            s.insert(x);
        }
        s.insert(ps.to_string());
    }
    s
}

#[derive(Debug, Default, PartialEq)]
struct Expected {
    hide: BTreeSet<String>,
    proc_: BTreeSet<String>,
    exc: BTreeSet<String>,
    scripts: BTreeSet<String>,
    gh: bool,
}

fn reference(lines: &[String], perms: &[u8], req: &dyn Fn(&str) -> u8, host: &str, dom: &str) -> Expected {
    let s = s_host(host, dom);
    let mut yes: BTreeSet<Content> = BTreeSet::new(); // content of rules covering the host
    let mut no: BTreeSet<Content> = BTreeSet::new(); // content excepted for the host
    let mut generic: BTreeSet<String> = BTreeSet::new();
    let mut gh = false;
    let mut granted: BTreeMap<String, u8> = BTreeMap::new(); // union of the permissions of covering +js rules
    for (li, l) in lines.iter().enumerate() {
        match parse_filter(l, false, Default::default()) {
            Ok(ParsedFilter::Network(_)) => {
                if let Some(h) = l.strip_prefix("@@||").and_then(|x| x.strip_suffix("^$generichide")) {
                    let h = to_ascii(h).unwrap_or_default();
                    if !h.is_empty() && (host == h || host.ends_with(&format!(".{}", h))) {
                        gh = true;
                    }
                }
                continue;
            }
            Ok(ParsedFilter::Cosmetic(_)) => {}
            Err(_) => continue, // rejected lines contribute nothing (C11)
        }
        let Some(t) = parse_text(l) else { continue };
        let covers_pos = t.pos.iter().any(|x| s.contains(x));
        let covers_neg = t.neg.iter().any(|x| s.contains(x));
        if t.pos.is_empty() {
            // unscoped (or only negated): a generic hide rule
            if let Content::Hide(sel) = &t.content {
                generic.insert(sel.clone());
            }
        }
        if covers_pos {
            if t.unhide { no.insert(t.content.clone()); } else { yes.insert(t.content.clone()); }
        }
        if covers_neg {
            if t.unhide { yes.insert(t.content.clone()); } else { no.insert(t.content.clone()); }
        }
        if let (Content::Script(a), true) = (&t.content, (covers_pos && !t.unhide) || (covers_neg && t.unhide)) {
            *granted.entry(a.clone()).or_insert(0) |= perms.get(li).copied().unwrap_or(0);
        }
    }
    let mut e = Expected { gh, ..Default::default() };
    let blanket = no.contains(&Content::Script(String::new()));
    for c in &no {
        if let Content::Hide(s) = c {
            e.exc.insert(s.clone());
        }
    }
    for c in &yes {
        if no.contains(c) {
            continue;
        }
        match c {
            Content::Hide(s) => { e.hide.insert(s.clone()); }
            Content::Proc(j) => { e.proc_.insert(j.clone()); }
            Content::Script(a) => {
                // injected when the union of the permissions of the covering rules meets the resource's requirement
                if !blanket && req(a) & !granted.get(a).copied().unwrap_or(0) == 0 { e.scripts.insert(a.clone()); }
            }
        }
    }
    if !gh {
        for sel in &generic {
            if ref_key(sel).is_none() && !e.exc.contains(sel) {
                e.hide.insert(sel.clone());
            }
        }
    }
    e
}

// ------------------------------------------------------------------------------ model inputs
struct ModelRule {
    coq: String,
    locations: Vec<String>,
}

/// Location strings of a cosmetic line, re-derived from the text and contract-checked against the
/// hash vectors of the parsed rule.
fn model_rule(line: &str, f: &CosmeticFilter) -> Result<ModelRule, String> {
    let t = line.trim();
    let sharp = t.find('#').ok_or("no sharp")?;
    let (mut hosts, mut ents, mut nhosts, mut nents) = (vec![], vec![], vec![], vec![]);
    for part in t[..sharp].split(',') {
        if part.is_empty() {
            continue;
        }
        let (n, p) = match part.strip_prefix('~') { Some(p) => (true, p), None => (false, part) };
        let (e, p) = match p.strip_suffix(".*") { Some(p) => (true, p), None => (false, p) };
        let p = to_ascii(p).ok_or("idna")?;
        match (n, e) {
            (false, false) => hosts.push(p),
            (false, true) => ents.push(p),
            (true, false) => nhosts.push(p),
            (true, true) => nents.push(p),
        }
    }
    let chk = |v: &Vec<String>, got: &Option<Vec<u64>>| -> bool {
        let mut hs: Vec<u64> = v.iter().map(|s| fast_hash(s)).collect();
        hs.sort();
        match got { None => hs.is_empty(), Some(g) => &hs == g }
    };
    if !(chk(&hosts, &f.hostnames) && chk(&ents, &f.entities) && chk(&nhosts, &f.not_hostnames) && chk(&nents, &f.not_entities)) {
        return Err(format!("location strings of {:?} do not hash to the parsed rule's vectors", line));
    }
    let plain = f.plain_css_selector().map(|s| s.to_string());
    let json = serde_json::to_string(&ProceduralOrActionFilter {
        selector: plain.clone().map(|s| vec![CosmeticFilterOperator::CssSelector(s)]).unwrap_or(f.selector.clone()),
        action: f.action.clone(),
    })
    .unwrap();
    let coq = format!(
        "(mkRule {} {} {} {} {} {} {} {} {} {})",
        cstrs(&hosts), cstrs(&ents), cstrs(&nhosts), cstrs(&nents),
        cbool(f.mask.contains(CosmeticFilterMask::UNHIDE)), cbool(f.mask.contains(CosmeticFilterMask::SCRIPT_INJECT)),
        copt(&plain, |s| hxs(s)), cbool(f.action.is_some()), hxs(&json), cn(f.permission.verif_bits())
    );
    let mut locations = hosts;
    locations.extend(ents);
    locations.extend(nhosts);
    locations.extend(nents);
    Ok(ModelRule { coq, locations })
}

fn cbin(v: &[(u64, Vec<String>)]) -> String {
    clist(v, |(h, b)| format!("({}, {})", cn(h), clist(b, |s| format!("({}, 0%N)", hxs(s)))))
}
fn cbin_perm(v: &[(u64, Vec<(String, u8)>)]) -> String {
    clist(v, |(h, b)| format!("({}, {})", cn(h), clist(b, |(s, p)| format!("({}, {})", hxs(s), cn(p)))))
}

struct Run {
    host: String,
    dom: String,
    failures: Vec<String>,
    exprs: Vec<(String, bool)>,
    got: Value,
}

fn run_case(lines: &[String], perms: &[u8], url: &str) -> Option<Run> {
    let opts = |p: u8| adblock::lists::ParseOptions { permissions: PermissionMask::from_bits(p), ..Default::default() };
    let req = Request::new(url, url, "document").ok()?;
    let host = req.hostname.clone();
    if host.is_empty() {
        return None;
    }
    let mut failures = vec![];
    // --- psl answer + contract
    let (ds, de) = get_host_domain(&host);
    if !(de == host.len() && ds < de && host.is_char_boundary(ds) && (ds == 0 || host.as_bytes()[ds - 1] == b'.') && host.as_bytes()[ds] != b'.') {
        failures.push(format!("psl contract: get_host_domain({:?}) = ({}, {})", host, ds, de));
        return Some(Run { host, dom: String::new(), failures, exprs: vec![], got: json!(null) });
    }
    let dom = host[ds..de].to_string();

    // --- label hooks, hashes mapped back to strings through every substring of the host
    let mut sub: HashMap<u64, String> = HashMap::new();
    let idx: Vec<usize> = (0..=host.len()).filter(|i| host.is_char_boundary(*i)).collect();
    for (a, i) in idx.iter().enumerate() {
        for j in &idx[a..] {
            sub.entry(fast_hash(&host[*i..*j])).or_insert(host[*i..*j].to_string());
        }
    }
    let back = |hs: &[u64], what: &str, failures: &mut Vec<String>| -> Vec<String> {
        hs.iter()
            .map(|h| match sub.get(h) {
                Some(s) => s.clone(),
                None => {
                    failures.push(format!("{}: hash {} is not the hash of a substring of {:?}", what, h, host));
                    "?".to_string()
                }
            })
            .collect()
    };
    let ent = back(&cv::get_entity_hashes_from_labels(&host, &dom), "entity hashes", &mut failures);
    let hn = back(&cv::get_hostname_hashes_from_labels(&host, &dom), "hostname hashes", &mut failures);
    let hwps = cv::get_hostname_without_public_suffix(&host, &dom).map(|(a, b)| (a.to_string(), b.to_string()));
    let got_s: BTreeSet<String> = ent.iter().chain(hn.iter()).cloned().collect();
    let want_s = s_host(&host, &dom);
    if got_s != want_s {
        failures.push(format!("lookup strings of {:?} (domain {:?}) are {:?}, S host is {:?}", host, dom, got_s, want_s));
    }
    let e_labels = format!(
        "strs_eq (entity_strings {h} {d}) {e} && strs_eq (hostname_strings {h} {d}) {n} && set_eqb (S_host {h} {d}) {all} && opt_eqb (pair_eqb str_eqb str_eqb) (get_hostname_without_public_suffix {h} {d}) {w}",
        h = hxs(&host), d = hxs(&dom), e = cstrs(&ent), n = cstrs(&hn),
        all = cstrs(&got_s.iter().cloned().collect::<Vec<_>>()),
        w = copt(&hwps, |(a, b)| format!("({}, {})", hxs(a), hxs(b)))
    );

    // --- engine
    let mut set = adblock::FilterSet::new(false);
    for (l, p) in lines.iter().zip(perms.iter()) {
        set.add_filters([l], opts(*p));
    }
    let mut engine = Engine::from_filter_set(set, true);
    engine.use_resources(resources());
    let res = engine.url_cosmetic_resources(url);
    let d = dump_cosmetic(&engine);

    // --- model rules
    let mut mrules = vec![];
    let mut table: BTreeMap<String, u64> = BTreeMap::new();
    let mut candidates: BTreeSet<String> = BTreeSet::new();
    for (l, p) in lines.iter().zip(perms.iter()) {
        if let Ok(ParsedFilter::Cosmetic(f)) = parse_filter(l, false, opts(*p)) {
            match model_rule(l, &f) {
                Ok(m) => {
                    for x in &m.locations {
                        table.insert(x.clone(), fast_hash(x));
                    }
                    if f.mask.contains(CosmeticFilterMask::SCRIPT_INJECT) {
                        if let Some(s) = f.plain_css_selector() {
                            candidates.insert(s.to_string());
                        }
                    }
                    mrules.push(m.coq);
                }
                Err(e) => failures.push(e),
            }
        }
    }
    // label-delimited substrings of the host (what the model may hash)
    let mut starts = vec![0usize];
    let mut ends = vec![host.len()];
    for (i, b) in host.bytes().enumerate() {
        if b == b'.' {
            starts.push(i + 1);
            ends.push(i);
        }
    }
    for a in &starts {
        for b in &ends {
            if a <= b {
                table.insert(host[*a..*b].to_string(), fast_hash(&host[*a..*b]));
            }
        }
    }
    let tbl: Vec<(String, u64)> = table.into_iter().collect();
    let hfun = format!("(table_hash {})", clist(&tbl, |(s, v)| format!("({}, {})", hxs(s), cn(v))));
    let uwf = "(fun _ : N => false)";
    let rules_coq = format!("[{}]", mrules.join("; "));

    // --- injected scripts: which candidate +js(..) argument strings are present
    let store = engine.verif_resources();
    let mut present: Vec<String> = vec![];
    let mut total = 0usize;
    let mut blocks: HashMap<String, String> = HashMap::new();
    let mut reqs: BTreeMap<String, u8> = BTreeMap::new();
    for c in &candidates {
        if c.is_empty() {
            continue;
        }
        let b = store.get_scriptlet_resources([(c.as_str(), PermissionMask::from_bits(255))]);
        // permission requirement of the candidate, probed through the public API
        let mut need = 3u8;
        for m in 0u8..4 {
            if !store.get_scriptlet_resources([(c.as_str(), PermissionMask::from_bits(m))]).is_empty() {
                need &= m;
            }
        }
        reqs.insert(c.clone(), need);
        if b.is_empty() {
            failures.push(format!("harness assumption: +js({}) does not resolve", c));
            continue;
        }
        if let Some(prev) = blocks.insert(b.clone(), c.clone()) {
            failures.push(format!("harness assumption: +js({}) and +js({}) give the same block", prev, c));
        }
        if res.injected_script.contains(&b) {
            present.push(c.clone());
            total += b.len();
        }
    }
    if total != res.injected_script.len() {
        failures.push(format!("injected_script has text that is not a block of a +js rule of the list: {:?}", res.injected_script));
    }

    // --- oracle
    let reqf = |a: &str| -> u8 { reqs.get(a).copied().unwrap_or(0) };
    let want = reference(lines, perms, &reqf, &host, &dom);
    let noreq = |_: &str| -> u8 { 0 };
    let want_noperm = reference(lines, perms, &noreq, &host, &dom);
    let perm_withheld = want_noperm.scripts.len() > want.scripts.len();
    let perm_injected = want.scripts.iter().any(|a| reqf(a) != 0);
    let canon = |s: &String| -> String { serde_json::from_str::<Value>(s).map(|v| v.to_string()).unwrap_or(s.clone()) };
    let got = Expected {
        hide: res.hide_selectors.iter().cloned().collect(),
        proc_: res.procedural_actions.iter().map(canon).collect(),
        exc: res.exceptions.iter().cloned().collect(),
        scripts: present.iter().cloned().collect(),
        gh: res.generichide,
    };
    if got != want {
        failures.push(format!("url_cosmetic_resources gives {:?}, the covers-based specification gives {:?}", got, want));
    }

    // --- Coq expressions
    let sets = |x: &std::collections::HashSet<String>| -> Vec<String> {
        let mut v: Vec<String> = x.iter().cloned().collect();
        v.sort();
        v
    };
    let e_bins = format!(
        "let c := build_cache {h} {uw} {rules} in bin_eqb THide {b1} (db c) && bin_eqb TUnhide {b2} (db c) && bin_eqb TInject {b3} (db c) && bin_eqb TUninject {b4} (db c) && bin_eqb TProc {b5} (db c) && bin_eqb TProcExc {b6} (db c) && set_eqb {misc} (misc (gen c)) && Nat.eqb (length (db c)) {nk}",
        h = hfun, uw = uwf, rules = rules_coq,
        b1 = cbin(&d.hide), b2 = cbin(&d.unhide), b3 = cbin_perm(&d.inject_script), b4 = cbin(&d.uninject_script),
        b5 = cbin(&d.procedural_action), b6 = cbin(&d.procedural_action_exception),
        misc = cstrs(&d.misc_generic_selectors),
        nk = d.hide.len() + d.unhide.len() + d.inject_script.len() + d.uninject_script.len() + d.procedural_action.len() + d.procedural_action_exception.len()
    );
    let e_res = format!(
        "resources_eqb_req (table_hash {req}) (hostname_cosmetic_resources {h} (build_cache {h} {uw} {rules}) {host} {dom} {gh}) {hide} {proc_} {exc} {scr} {gh}",
        req = clist(&reqs.iter().collect::<Vec<_>>(), |(s, v)| format!("({}, {})", hxs(s), cn(v))),
        h = hfun, uw = uwf, rules = rules_coq, host = hxs(&host), dom = hxs(&dom), gh = cbool(res.generichide),
        hide = cstrs(&sets(&res.hide_selectors)), proc_ = cstrs(&sets(&res.procedural_actions)),
        exc = cstrs(&sets(&res.exceptions)), scr = cstrs(&present)
    );
    let specific = !res.procedural_actions.is_empty() || !res.exceptions.is_empty() || !present.is_empty()
        || res.hide_selectors.iter().any(|s| !d.misc_generic_selectors.contains(s));
    let got_json = json!({"perm_withheld": perm_withheld, "perm_injected": perm_injected, "hide_selectors": sets(&res.hide_selectors), "procedural_actions": sets(&res.procedural_actions),
        "exceptions": sets(&res.exceptions), "scripts": present, "generichide": res.generichide});
    Some(Run {
        host: host.clone(),
        dom,
        failures,
        exprs: vec![(e_labels, host.contains('.')), (e_bins, !d.hide.is_empty() || !d.unhide.is_empty()), (e_res, specific)],
        got: got_json,
    })
}

fn strs(v: &Value) -> Vec<String> {
    v.as_array().map(|a| a.iter().map(|x| x.as_str().unwrap_or("").to_string()).collect()).unwrap_or_default()
}

fn main() {
    let a = args();
    if let Some(p) = &a.replay {
        let v: Value = serde_json::from_str(&std::fs::read_to_string(p).unwrap()).unwrap();
        let rp = &v["replay"];
        let rules = strs(&rp["rules"]);
        let perms: Vec<u8> = rp["permissions"].as_array().map(|a| a.iter().map(|x| x.as_u64().unwrap_or(0) as u8).collect()).unwrap_or_default();
        let perms = if perms.len() == rules.len() { perms } else { vec![0; rules.len()] };
        let url = rp["url"].as_str().unwrap_or("");
        let mut bad = false;
        match run_case(&rules, &perms, url) {
            Some(run) => {
                println!("host={:?} domain={:?} impl={}", run.host, run.dom, run.got);
                for f in &run.failures {
                    println!("FAIL: {}", f);
                    bad = true;
                }
            }
            None => println!("url does not parse"),
        }
        if bad {
            println!("VIOLATION property=C16 replay={}", p.display());
            std::process::exit(1);
        }
        return;
    }
    let mut r = Rng::new(a.seed);
    let mut cs = Cases::new(&a.out, "C17_Model C16_Model");
    let mut sm = Summary::default();
    sm.rule = "lists of 1-10 cosmetic rules (0-3 locations each: hosts, label-aligned and non-aligned suffixes, entity forms name.*, negations, public suffixes, IDN; ## and #@#; hide / :style / :remove / :remove-attr / :remove-class / +js(args) / blanket #@#+js(); duplicates) plus optional @@||host^$generichide, x page hosts from a 23-host universe (multi-label public suffixes co.uk, co.jp, github.io; depth up to 6; bare public suffix; localhost; IP; trailing dot; IDN) with www./x.y. prefixes; resources loaded through Engine::use_resources (3 template scriptlets with aliases); non-trivial = labels case on a dotted host, bins case with a non-empty hide/unhide bin, resources case where something host-specific (selector outside the misc store, procedural action, exception, scriptlet) is returned".into();

    // every host of the universe once for the label functions, then random cases
    let n = 700 * a.scale;
    for i in 0..n {
        let host = if i < HOSTS.len() { HOSTS[i].to_string() } else { gen_page_host(&mut r) };
        let rules = gen_rules(&mut r, &host);
        let url = format!("https://{}/page", host);
        // permissions: lists loaded with different masks (most rules with none)
        let perms: Vec<u8> = rules.iter().map(|l| if l.contains("+js(p") && r.chance(3, 4) { r.below(4) as u8 } else if r.chance(1, 8) { r.below(4) as u8 } else { 0 }).collect();
        let Some(run) = run_case(&rules, &perms, &url) else { cs.stat("url_error"); continue };
        sm.oracle_evaluations += 2;
        let desc = json!({"rules": rules, "permissions": perms, "url": url, "host": run.host, "domain": run.dom, "impl": run.got});
        for f in &run.failures {
            sm.failure(None, f, desc.clone());
        }
        if run.got["generichide"] == json!(true) { cs.stat("generichide") }
        if run.got["perm_withheld"] == json!(true) { cs.stat("scriptlet_withheld_for_permission") }
        if run.got["perm_injected"] == json!(true) { cs.stat("permissioned_scriptlet_injected") }
        if run.got["scripts"].as_array().map(|x| !x.is_empty()).unwrap_or(false) { cs.stat("scripts_injected") }
        if run.got["exceptions"].as_array().map(|x| !x.is_empty()).unwrap_or(false) { cs.stat("exceptions_nonempty") }
        if run.got["procedural_actions"].as_array().map(|x| !x.is_empty()).unwrap_or(false) { cs.stat("procedural_nonempty") }
        for (e, nt) in run.exprs {
            cs.case(e, desc.clone(), nt);
        }
    }
    cs.finish();
    sm.write(&a.out, &cs);
}
