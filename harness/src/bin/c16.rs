//! C16 — per-site cosmetic resources contain exactly the rules scoped to that host.
//! Correspondence (model = C16_Model.v, generic stores = C17_Model.v):
//!   * label functions: the hooks `get_entity_hashes_from_labels`, `get_hostname_hashes_from_labels`,
//!     `get_hashes_from_labels`, `get_hostname_without_public_suffix` (hashes mapped back to strings
//!     by hashing every substring of the host) vs `entity_strings` / `hostname_strings` /
//!     `label_strings`, and vs the L0 list `S_host`;
//!   * `dump_cosmetic(&engine)`: the six per-host bins and the misc store vs `build_cache`;
//!   * `Engine::url_cosmetic_resources(url)`: hide_selectors, procedural_actions, exceptions,
//!     injected scriptlets (as the set of `+js(..)` argument strings whose `try{}` block is present)
//!     and generichide vs `hostname_cosmetic_resources`.
//! Oracle (independent of Coq): a covers-based reference working from the rule text and the psl
//! answer (contract-checked), with its own label splitting, CSS key scanner and JSON rendering;
//! which lines are rules at all is stated from the rule text (`ref_accepted`: an exception with a
//! negated location is a double negation, generic exceptions / scriptlets / actions are not rules;
//! the body's validity is taken from the same body behind one positive location) and compared with
//! the crate's parser; class/id-keyed generic rules (unscoped and negation-only hide rules) are
//! asked for through `hidden_class_id_selectors` with the host's exceptions.
//! Generators: the general grammar (`gen_rules`) and lists around lines whose location list has
//! only negations / mixes positive and negated locations (`gen_neg_rules`), asked on 3-4 hosts.
use adblock::cosmetic_filter_cache::ProceduralOrActionFilter;
use adblock::filters::cosmetic::verif as cv;
use adblock::filters::cosmetic::{CosmeticFilter, CosmeticFilterMask, CosmeticFilterOperator};
use adblock::lists::{parse_filter, ParsedFilter};
use adblock::request::Request;
use adblock::resources::{MimeType, PermissionMask, Resource, ResourceType};
use adblock::url_parser::verif::get_host_domain;
use adblock::utils::fast_hash;
use adblock::verif_hooks::dump_cosmetic;
use adblock::Engine;
use implrun::*;
use serde_json::{json, Value};
use std::collections::{BTreeMap, BTreeSet, HashMap};

// ------------------------------------------------------------------------------ vocabulary
const HOSTS: &[&str] = &[
    "example.com", "sub.example.com", "a.b.example.com", "deep.a.b.example.com", "example.co.uk",
    "www.example.co.uk", "a.b.example.co.uk", "co.uk", "com", "localhost", "foo.net", "x.foo.net",
    "bar.example.org", "example.com.evil.org", "bücher.example", "192.168.0.1", "example.com.",
    "a.example.com", "ample.com", "xexample.com", "example.co.jp", "b.example.github.io", "github.io",
];
const SELECTORS: &[&str] = &[
    ".ad", ".banner", "#top", "div.ad", ".ad > a", "#x\\:y", "[href]", ".", "a\\.b", "#\\31 0", ".ad:hover",
    "div", ".b\\", "##", ".x1",
];
const STYLES: &[&str] = &["color: red", "display: block !important", "margin: 0"];
const SCRIPTS: &[&str] = &["set, a, 1", "set, b, 2", "abort, x", "acis, y", "noop", "abort, x.y", "set, a, 2", "perm, z", "p1, z", "perm, z", "window.open-defuser, popup", "nowoif, 1", "window.open-defuser.js, 2"];

fn b64(data: &[u8]) -> String {
    const T: &[u8; 64] = b"ABCDEFGHIJKLMNOPQRSTUVWXYZabcdefghijklmnopqrstuvwxyz0123456789+/";
    let mut o = String::new();
    for ch in data.chunks(3) {
        let b = [ch[0], *ch.get(1).unwrap_or(&0), *ch.get(2).unwrap_or(&0)];
        let n = ((b[0] as u32) << 16) | ((b[1] as u32) << 8) | b[2] as u32;
        o.push(T[(n >> 18) as usize & 63] as char);
        o.push(T[(n >> 12) as usize & 63] as char);
        o.push(if ch.len() > 1 { T[(n >> 6) as usize & 63] as char } else { '=' });
        o.push(if ch.len() > 2 { T[n as usize & 63] as char } else { '=' });
    }
    o
}
fn simple(name: &str, aliases: &[&str], content: &str) -> Resource {
    simple_perm(name, aliases, content, 0)
}
fn simple_perm(name: &str, aliases: &[&str], content: &str, perm: u8) -> Resource {
    Resource {
        name: name.to_string(),
        aliases: aliases.iter().map(|s| s.to_string()).collect(),
        kind: ResourceType::Mime(MimeType::ApplicationJavascript),
        content: b64(content.as_bytes()),
        dependencies: vec![],
        permission: PermissionMask::from_bits(perm),
    }
}
fn resources() -> Vec<Resource> {
    vec![
        simple("set.js", &["set-constant.js"], "SET({{1}},{{2}});"),
        simple("abort.js", &["acis.js"], "ABORT[{{1}}];"),
        simple("noop.js", &[], "NOOP();"),
        // a scriptlet whose name has a dot in it (rules name it without the .js extension)
        simple("window.open-defuser.js", &["nowoif.js"], "WOD({{1}});"),
        simple_perm("perm.js", &[], "PERM[{{1}}];", 3),
        simple_perm("p1.js", &[], "P1[{{1}}];", 1),
    ]
}

fn label_cut(r: &mut Rng, host: &str) -> String {
    let labels: Vec<&str> = host.split('.').collect();
    let n = labels.len();
    let a = r.below(n);
    let b = r.range(a + 1, n);
    labels[a..b].join(".")
}

/// A `$generichide` exception for host `h`: bare, or carrying party / `domain=` options.  The
/// engine evaluates it against the page as a document request whose source is the page itself
/// (Engine::url_cosmetic_resources), so the options are decided by the page alone.
fn gh_line(r: &mut Rng, h: &str, page: &str) -> String {
    let kw = if r.chance(1, 4) { "ghide" } else { "generichide" };
    let d = {
        let ph = if r.chance(2, 3) { page } else { r.pick(HOSTS) };
        let d = if r.chance(1, 2) { ph.to_string() } else { label_cut(r, ph) };
        if d.is_empty() || !d.is_ascii() { h.to_string() } else { d }
    };
    // a tag on the exception: the engine of every case enables exactly the tag "on"
    let kw_tagged = if r.chance(1, 5) { format!("{},tag={}", kw, r.pick(&["on", "off", "On"])) } else { kw.to_string() };
    let kw: &str = &kw_tagged;
    match r.below(12) {
        0..=4 => format!("@@||{}^${}", h, kw),
        5 => format!("@@||{}^${},{}", h, kw, r.pick(&["1p", "first-party", "~third-party", "~3p"])),
        6 => format!("@@||{}^${},{}", h, kw, r.pick(&["3p", "third-party", "~first-party", "~1p"])),
        7 => format!("@@||{}^${},domain={}", h, kw, d),
        8 => format!("@@||{}^${},domain=~{}", h, kw, d),
        9 => format!("@@${},domain={}", kw, d),
        10 => format!("@@||{}^$domain={},{}", h, d, kw),
        _ => {
            let o = r.pick(HOSTS).trim_end_matches('.');
            let o = if o.is_ascii() { o } else { "foo.net" };
            format!("@@||{}^${},domain={}|{}", h, kw, d, o)
        }
    }
}

/// Does line `l` (one of `gh_line`'s forms) switch generic hiding off on page host `host`?
/// None: not a generichide exception at all.
fn gh_applies(l: &str, host: &str) -> Option<bool> {
    let body = l.strip_prefix("@@")?;
    let (pat, opts) = body.rsplit_once('$')?;
    let opts: Vec<&str> = opts.split(',').collect();
    if !opts.iter().any(|o| *o == "generichide" || *o == "ghide") {
        return None;
    }
    let under = |name: &str| -> bool { !name.is_empty() && (host == name || host.ends_with(&format!(".{}", name))) };
    let mut ok = true;
    if !pat.is_empty() {
        let h = pat.strip_prefix("||")?.strip_suffix('^')?;
        let h = to_ascii(h).unwrap_or_default();
        ok &= under(&h);
    }
    for o in opts {
        match o {
            "generichide" | "ghide" => {}
            // a tagged rule is active iff its tag is enabled; run_case enables "on" only
            "tag=on" => {}
            "tag=off" | "tag=On" => ok = false,
            "1p" | "first-party" | "~third-party" | "~3p" => {}
            // the page is never a third party to itself
            "3p" | "third-party" | "~first-party" | "~1p" => ok = false,
            _ => {
                let ds = o.strip_prefix("domain=")?;
                let (neg, pos): (Vec<&str>, Vec<&str>) = ds.split('|').partition(|d| d.starts_with('~'));
                if !pos.is_empty() && !pos.iter().any(|d| under(d)) {
                    ok = false;
                }
                if neg.iter().any(|d| under(&d[1..])) {
                    ok = false;
                }
            }
        }
    }
    Some(ok)
}

fn gen_location(r: &mut Rng, page: &str) -> String {
    let host = if r.chance(3, 5) { page } else { r.pick(HOSTS) };
    let name = match r.below(9) {
        0 | 1 => host.to_string(),
        2 | 3 | 4 => label_cut(r, host),
        5 => {
            let k = r.range(1, host.len().min(4));
            host.chars().skip(k).collect()
        }
        6 => format!("{}{}", r.pick(&["x", "sub.", "a."]), host),
        7 => host.split('.').next().unwrap().to_string(),
        _ => r.pick(&["example", "co", "uk", "com", "b.example", "example.co", "foo", "localhost", "github", "evil"]).to_string(),
    };
    let ent = if r.chance(1, 3) { ".*" } else { "" };
    let neg = if r.chance(1, 5) { "~" } else { "" };
    format!("{}{}{}", neg, name, ent)
}

fn gen_rule(r: &mut Rng, page: &str) -> String {
    let nloc = match r.below(10) {
        0 => 0,
        1 | 2 | 3 | 4 | 5 => 1,
        6 | 7 => 2,
        _ => 3,
    };
    let locs: Vec<String> = (0..nloc).map(|_| gen_location(r, page)).collect();
    let unhide = r.chance(1, 4);
    let sep = if unhide { "#@#" } else { "##" };
    let body = match r.below(10) {
        0 | 1 => {
            if unhide && r.chance(1, 3) {
                "+js()".to_string()
            } else {
                format!("+js({})", r.pick(SCRIPTS))
            }
        }
        2 => format!("{}:style({})", r.pick(SELECTORS), r.pick(STYLES)),
        3 => match r.below(3) {
            0 => format!("{}:remove()", r.pick(SELECTORS)),
            1 => format!("{}:remove-attr(onclick)", r.pick(SELECTORS)),
            _ => format!("{}:remove-class(advert)", r.pick(SELECTORS)),
        },
        _ => r.pick(SELECTORS).to_string(),
    };
    format!("{}{}{}", locs.join(","), sep, body)
}

fn gen_rules(r: &mut Rng, page: &str) -> Vec<String> {
    let n = r.range(1, 10);
    let mut v: Vec<String> = vec![];
    for _ in 0..n {
        if !v.is_empty() && r.chance(1, 10) {
            let d = v[r.below(v.len())].clone();
            v.push(d);
        }
        v.push(gen_rule(r, page));
    }
    if r.chance(1, 3) {
        let ph = if r.chance(2, 3) { page } else { r.pick(HOSTS) };
        let h = if r.chance(1, 2) { ph.to_string() } else { label_cut(r, ph) };
        // NetworkFilter::parse strips a leading "www." from hostname-anchored rules (network
        // matching is C02's subject): keep the generichide hosts free of it
        let h = h.trim_start_matches("www.").to_string();
        if !h.is_empty() {
            v.push(gh_line(r, &h, page));
        }
    }
    v
}

// ------------------------------------------------------------------------------ negation-only lists
const VALID_SELECTORS: &[&str] = &[".ad", ".banner", "#top", "div.ad", ".ad > a", "[href]", ".ad:hover", "div", ".x1", "a[href^=\"https://ads.\"]", "#x\\:y"];
const OTHER_SUFFIXES: &[&str] = &["com", "net", "org", "co.uk", "co.jp", "de", "github.io"];

/// (host without its public suffix, public suffix) from the psl answer; for a host without a dot
/// in its domain the host itself.
fn split_suffix(host: &str) -> (String, String) {
    let (a, b) = get_host_domain(host);
    let dom = host.get(a..b).unwrap_or(host);
    match dom.split_once('.') {
        Some((_, ps)) if host.len() > ps.len() + 1 => (host[..host.len() - ps.len() - 1].to_string(), ps.to_string()),
        _ => (host.to_string(), String::new()),
    }
}

/// One negated location. Mostly names that cover `page` (label-aligned suffixes of the host for a
/// hostname, of the host without its public suffix for an entity), sometimes names that do not.
fn gen_neg_location(r: &mut Rng, page: &str, entity: bool) -> String {
    let (hw, _) = split_suffix(page);
    let base = if entity { hw.as_str() } else { page };
    let labels: Vec<&str> = base.split('.').collect();
    let n = labels.len();
    let name = match r.below(10) {
        0..=5 => labels[r.below(n)..].join("."),
        6 => label_cut(r, page),
        7 => format!("x{}", base),
        8 => {
            let o = r.pick(HOSTS);
            if entity { split_suffix(o).0 } else { o.to_string() }
        }
        _ => base.to_string(),
    };
    format!("~{}{}", name, if entity { ".*" } else { "" })
}

fn gen_neg_body(r: &mut Rng, unhide: bool) -> (String, &'static str) {
    match r.below(10) {
        0..=3 => (r.pick(VALID_SELECTORS).to_string(), "hide"),
        4 | 5 => (if unhide && r.chance(1, 4) { "+js()".to_string() } else { format!("+js({})", r.pick(SCRIPTS)) }, "scriptlet"),
        6 | 7 => (
            match r.below(4) {
                0 => format!("{}:style({})", r.pick(VALID_SELECTORS), r.pick(STYLES)),
                1 => format!("{}:remove()", r.pick(VALID_SELECTORS)),
                2 => format!("{}:remove-attr(onclick)", r.pick(VALID_SELECTORS)),
                _ => format!("{}:remove-class(advert)", r.pick(VALID_SELECTORS)),
            },
            "procedural",
        ),
        8 => (r.pick(SELECTORS).to_string(), "hide"),
        _ => (".ad".to_string(), "hide"),
    }
}

/// A cosmetic line whose location list consists only of negations (`mixed` = false) or of
/// negations and at least one positive location; all combinations of ~hostname and ~entity.*.
fn gen_neg_rule(r: &mut Rng, page: &str, mixed: bool) -> (String, &'static str, bool) {
    let n = r.range(1, 3);
    // the combination of kinds is drawn first so that every subset shape is equally likely
    let combo = r.below(3); // 0: hostnames only, 1: entities only, 2: both kinds
    let mut locs: Vec<String> = (0..n)
        .map(|i| {
            let entity = match combo { 0 => false, 1 => true, _ => if n == 1 { r.chance(1, 2) } else { i % 2 == 1 } };
            gen_neg_location(r, page, entity)
        })
        .collect();
    if mixed {
        let k = r.range(1, 2);
        for _ in 0..k {
            let mut l = gen_location(r, page);
            if let Some(p) = l.strip_prefix('~') { l = p.to_string() }
            let at = r.below(locs.len() + 1);
            locs.insert(at, l);
        }
    }
    let unhide = r.chance(2, 5);
    let (body, kind) = gen_neg_body(r, unhide);
    (format!("{}{}{}", locs.join(","), if unhide { "#@#" } else { "##" }, body), kind, unhide)
}

/// 1-5 negation-only / mixed lines plus context: a positive or unscoped line with the same body as
/// one of them, lines of the general grammar, optionally a generichide exception.
fn gen_neg_rules(r: &mut Rng, page: &str, stats: &mut Vec<String>) -> Vec<String> {
    let n = r.range(1, 5);
    let mut v: Vec<String> = vec![];
    for _ in 0..n {
        let mixed = r.chance(1, 4);
        let (line, kind, unhide) = gen_neg_rule(r, page, mixed);
        stats.push(format!("{}_{}_{}", if mixed { "mixedneg_line" } else { "negonly_line" }, if unhide { "exception" } else { "rule" }, kind));
        if r.chance(1, 3) {
            // the same body scoped positively / unscoped / excepted, to see the two interact
            if let Some((_, _, after)) = split_line(&line) {
                let h = if r.chance(1, 2) { page.to_string() } else { label_cut(r, page) };
                // (a blanket `+js()` only exists as an exception)
                v.push(match if after == "+js()" { 1 } else { r.below(4) } {
                    0 => format!("##{}", after),
                    1 => format!("{}#@#{}", h, after),
                    2 => format!("{}.*##{}", split_suffix(page).0, after),
                    _ => format!("{}##{}", h, after),
                });
            }
        }
        v.push(line);
    }
    for _ in 0..r.below(3) {
        v.push(gen_rule(r, page));
    }
    if r.chance(1, 6) {
        let h = label_cut(r, page).trim_start_matches("www.").to_string();
        if !h.is_empty() {
            v.push(gh_line(r, &h, page));
        }
    }
    // order is part of the input
    if r.chance(1, 2) {
        let k = r.below(v.len());
        v.rotate_left(k);
    }
    v
}

/// Hosts to ask about: the page host (covered by the names drawn from it), a subdomain of it, the
/// same name under another public suffix (covered by the entities only), an unrelated host.
fn neg_hosts(r: &mut Rng, page: &str) -> Vec<String> {
    let (hw, ps) = split_suffix(page);
    let mut v = vec![page.to_string()];
    let other: Vec<&str> = OTHER_SUFFIXES.iter().copied().filter(|s| *s != ps).collect();
    v.push(format!("{}.{}", hw, r.pick(&other)));
    if r.chance(1, 2) {
        v.push(format!("{}{}", r.pick(&["www.", "x.y.", "m."]), page));
    }
    loop {
        let o = r.pick(HOSTS);
        if split_suffix(o).0.split('.').last() != hw.split('.').last() {
            v.push(o.to_string());
            break;
        }
    }
    v
}

fn gen_page_host(r: &mut Rng) -> String {
    let h = r.pick(HOSTS);
    match r.below(6) {
        0 => format!("www.{}", h),
        1 => format!("x.y.{}", h),
        _ => h.to_string(),
    }
}

// ------------------------------------------------------------------------------ reference
/// Leading class/id key (same statement as in c17.rs, ASCII vocabulary here).
fn ref_key(sel: &str) -> Option<String> {
    let cs: Vec<char> = sel.chars().collect();
    if cs.is_empty() || (cs[0] != '.' && cs[0] != '#') {
        return None;
    }
    let mut out = String::new();
    out.push(cs[0]);
    let (mut i, mut items, mut bad) = (1, 0, false);
    while i < cs.len() {
        let c = cs[i];
        if c == '\\' {
            let mut j = i + 1;
            while j < cs.len() && cs[j].is_ascii_hexdigit() {
                j += 1;
            }
            if j > i + 1 && j < cs.len() && cs[j] == ' ' {
                let hex: String = cs[i + 1..j].iter().collect();
                match u32::from_str_radix(&hex, 16).ok().and_then(char::from_u32) {
                    Some(ch) => out.push(ch),
                    None => bad = true,
                }
                i = j + 1;
            } else if i + 1 < cs.len() && cs[i + 1] != '\n' {
                out.push(cs[i + 1]);
                i += 2;
            } else {
                break;
            }
            items += 1;
        } else if c == '-' || c == '_' || c.is_alphanumeric() {
            out.push(c);
            i += 1;
            items += 1;
        } else {
            break;
        }
    }
    if items == 0 || bad { None } else { Some(out) }
}

#[derive(Clone, Debug, PartialEq, Eq, PartialOrd, Ord)]
enum Content {
    Hide(String),
    Proc(String), // canonical JSON value text
    Script(String),
}

struct TextRule {
    pos: Vec<String>, // location names, entity suffix and ~ stripped, idna applied
    neg: Vec<String>,
    unhide: bool,
    content: Content,
}

fn to_ascii(loc: &str) -> Option<String> {
    if loc.is_ascii() {
        Some(loc.to_string())
    } else {
        match idna::domain_to_ascii(loc) {
            Ok(x) if !x.is_empty() => Some(x),
            _ => None,
        }
    }
}

/// Mini-parser for the generator's grammar (independent of the crate's parser).
fn parse_text(line: &str) -> Option<TextRule> {
    let (before, unhide, after) = if let Some(i) = line.find("#@#") {
        (&line[..i], true, &line[i + 3..])
    } else if let Some(i) = line.find("##") {
        (&line[..i], false, &line[i + 2..])
    } else {
        return None;
    };
    let mut pos = vec![];
    let mut neg = vec![];
    for part in before.split(',') {
        if part.is_empty() {
            continue;
        }
        let (n, p) = match part.strip_prefix('~') {
            Some(p) => (true, p),
            None => (false, part),
        };
        let p = p.strip_suffix(".*").unwrap_or(p);
        let p = to_ascii(p)?;
        if n { neg.push(p) } else { pos.push(p) }
    }
    let after = after.trim();
    let canon = |sel: &str, action: Value| -> Content {
        let mut o = serde_json::Map::new();
        o.insert("selector".into(), json!([{"type": "css-selector", "arg": sel}]));
        o.insert("action".into(), action);
        Content::Proc(Value::Object(o).to_string())
    };
    let content = if after.starts_with("+js(") && after.ends_with(')') {
        Content::Script(after[4..after.len() - 1].to_string())
    } else if let (Some(i), true) = (after.find(":style("), after.ends_with(')')) {
        canon(&after[..i], json!({"type": "style", "arg": &after[i + 7..after.len() - 1]}))
    } else if let (Some(i), true) = (after.find(":remove-attr("), after.ends_with(')')) {
        canon(&after[..i], json!({"type": "remove-attr", "arg": &after[i + 13..after.len() - 1]}))
    } else if let (Some(i), true) = (after.find(":remove-class("), after.ends_with(')')) {
        canon(&after[..i], json!({"type": "remove-class", "arg": &after[i + 14..after.len() - 1]}))
    } else if let Some(s) = after.strip_suffix(":remove()") {
        canon(s, json!({"type": "remove"}))
    } else {
        Content::Hide(after.to_string())
    };
    Some(TextRule { pos, neg, unhide, content })
}

/// Location list of a cosmetic line: (negated, entity, ascii name) per non-empty part; None when a
/// name is not convertible to ASCII.
fn text_locations(before: &str) -> Option<Vec<(bool, bool, String)>> {
    let mut v = vec![];
    for part in before.split(',') {
        if part.is_empty() {
            continue;
        }
        let (n, p) = match part.strip_prefix('~') { Some(p) => (true, p), None => (false, part) };
        let (e, p) = match p.strip_suffix(".*") { Some(p) => (true, p), None => (false, p) };
        v.push((n, e, to_ascii(p)?));
    }
    Some(v)
}

fn split_line(line: &str) -> Option<(&str, bool, &str)> {
    if line.starts_with("@@") || line.starts_with('|') {
        return None;
    }
    if let Some(i) = line.find("#@#") {
        Some((&line[..i], true, &line[i + 3..]))
    } else if let Some(i) = line.find("##") {
        Some((&line[..i], false, &line[i + 2..]))
    } else {
        None
    }
}

#[derive(Debug, Clone, Copy, PartialEq)]
enum BodyKind {
    Hide,
    Script,
    Action,
}
fn body_kind(after: &str) -> BodyKind {
    let a = after.trim();
    if a.starts_with("+js(") && a.ends_with(')') {
        BodyKind::Script
    } else if a.contains(":style(") || a.contains(":remove-attr(") || a.contains(":remove-class(") || a.ends_with(":remove()") {
        BodyKind::Action
    } else {
        BodyKind::Hide
    }
}

/// Which cosmetic lines of the generator's grammar are rules at all, stated from the rule text
/// (None: not a cosmetic line). The scoping part is stated here:
///   * every location name must have an ASCII (IDNA) form;
///   * the part after the separator must not be empty;
///   * an exception (`#@#`) needs a location list and none of its locations may be negated
///     (an exception for "everywhere but X" is a double negation);
///   * a scriptlet (`+js(..)`) and an action (`:style(..)`, `:remove..`) need a location list
///     (negated locations count: `~a.com##+js(x)` is a rule, it injects nowhere and excepts on a.com).
/// The validity of the part after the separator does not depend on the location list: it is taken
/// from the same body behind the single positive location `x.test` (metamorphic baseline).
fn ref_accepted(line: &str) -> Option<bool> {
    let line = line.trim();
    let (before, unhide, after) = split_line(line)?;
    let Some(locs) = text_locations(before) else { return Some(false) };
    if after.trim().is_empty() {
        return Some(false);
    }
    let negated = locs.iter().any(|(n, _, _)| *n);
    if unhide && (before.is_empty() || negated) {
        return Some(false);
    }
    if body_kind(after) != BodyKind::Hide && before.is_empty() {
        return Some(false);
    }
    let baseline = format!("x.test{}{}", if unhide { "#@#" } else { "##" }, after);
    Some(matches!(parse_filter(&baseline, false, Default::default()), Ok(ParsedFilter::Cosmetic(_))))
}

/// For the statistics: is `host` covered by a negated entity / a negated hostname of a line whose
/// location list consists only of negations?
fn negonly_cover(lines: &[String], host: &str, dom: &str) -> (bool, bool, bool) {
    let s = s_host(host, dom);
    let (mut any, mut by_ent, mut by_host) = (false, false, false);
    for l in lines {
        let Some((before, _, _)) = split_line(l.trim()) else { continue };
        let Some(locs) = text_locations(before) else { continue };
        if locs.is_empty() || locs.iter().any(|(n, _, _)| !*n) {
            continue;
        }
        any = true;
        for (_, e, name) in &locs {
            if s.contains(name) {
                if *e { by_ent = true } else { by_host = true }
            }
        }
    }
    (any, by_ent, by_host)
}

/// S host of DESIGN.md §4 C16, from the psl answer `dom`, by label splitting.
fn s_host(host: &str, dom: &str) -> BTreeSet<String> {
    let mut s = BTreeSet::new();
    let suffixes = |x: &str| -> Vec<String> {
        let labels: Vec<&str> = x.split('.').collect();
        (0..labels.len()).map(|i| labels[i..].join(".")).collect()
    };
    for x in suffixes(host) {
        if x.len() >= dom.len() {
            s.insert(x);
        }
    }
    if let Some((_, ps)) = dom.split_once('.') {
        let hw = &host[..host.len() - ps.len() - 1];
        for x in suffixes(hw) {
            s.insert(x);
        }
        s.insert(ps.to_string());
    }
    s
}

#[derive(Debug, Default, PartialEq)]
struct Expected {
    hide: BTreeSet<String>,
    proc_: BTreeSet<String>,
    exc: BTreeSet<String>,
    scripts: BTreeSet<String>,
    gh: bool,
}

fn reference(lines: &[String], perms: &[u8], req: &dyn Fn(&str) -> u8, host: &str, dom: &str) -> Expected {
    let s = s_host(host, dom);
    let mut yes: BTreeSet<Content> = BTreeSet::new(); // content of rules covering the host
    let mut no: BTreeSet<Content> = BTreeSet::new(); // content excepted for the host
    let mut generic: BTreeSet<String> = BTreeSet::new();
    let mut gh = false;
    let mut granted: BTreeMap<String, u8> = BTreeMap::new(); // union of the permissions of covering +js rules
    for (li, l) in lines.iter().enumerate() {
        match ref_accepted(l) {
            None => {
                // not a cosmetic line of the generator's grammar: the generichide exception
                if let (Ok(ParsedFilter::Network(_)), Some(true)) = (parse_filter(l, false, Default::default()), gh_applies(l, host)) {
                    gh = true;
                }
                continue;
            }
            Some(false) => continue, // rejected lines contribute nothing
            Some(true) => {}
        }
        let Some(t) = parse_text(l) else { continue };
        let covers_pos = t.pos.iter().any(|x| s.contains(x));
        let covers_neg = t.neg.iter().any(|x| s.contains(x));
        if t.pos.is_empty() {
            // unscoped (or only negated): a generic hide rule
            if let Content::Hide(sel) = &t.content {
                generic.insert(sel.clone());
            }
        }
        if covers_pos {
            if t.unhide { no.insert(t.content.clone()); } else { yes.insert(t.content.clone()); }
        }
        if covers_neg {
            if t.unhide { yes.insert(t.content.clone()); } else { no.insert(t.content.clone()); }
        }
        if let (Content::Script(a), true) = (&t.content, (covers_pos && !t.unhide) || (covers_neg && t.unhide)) {
            *granted.entry(a.clone()).or_insert(0) |= perms.get(li).copied().unwrap_or(0);
        }
    }
    let mut e = Expected { gh, ..Default::default() };
    let blanket = no.contains(&Content::Script(String::new()));
    for c in &no {
        if let Content::Hide(s) = c {
            e.exc.insert(s.clone());
        }
    }
    for c in &yes {
        if no.contains(c) {
            continue;
        }
        match c {
            Content::Hide(s) => { e.hide.insert(s.clone()); }
            Content::Proc(j) => { e.proc_.insert(j.clone()); }
            Content::Script(a) => {
                // injected when the union of the permissions of the covering rules meets the resource's requirement
                if !blanket && req(a) & !granted.get(a).copied().unwrap_or(0) == 0 { e.scripts.insert(a.clone()); }
            }
        }
    }
    if !gh {
        for sel in &generic {
            if ref_key(sel).is_none() && !e.exc.contains(sel) {
                e.hide.insert(sel.clone());
            }
        }
    }
    e
}

// ------------------------------------------------------------------------------ model inputs
struct ModelRule {
    coq: String,
    locations: Vec<String>,
}

/// Location strings of a cosmetic line, re-derived from the text and contract-checked against the
/// hash vectors of the parsed rule.
fn model_rule(line: &str, f: &CosmeticFilter) -> Result<ModelRule, String> {
    let t = line.trim();
    let sharp = t.find('#').ok_or("no sharp")?;
    let (mut hosts, mut ents, mut nhosts, mut nents) = (vec![], vec![], vec![], vec![]);
    for part in t[..sharp].split(',') {
        if part.is_empty() {
            continue;
        }
        let (n, p) = match part.strip_prefix('~') { Some(p) => (true, p), None => (false, part) };
        let (e, p) = match p.strip_suffix(".*") { Some(p) => (true, p), None => (false, p) };
        let p = to_ascii(p).ok_or("idna")?;
        match (n, e) {
            (false, false) => hosts.push(p),
            (false, true) => ents.push(p),
            (true, false) => nhosts.push(p),
            (true, true) => nents.push(p),
        }
    }
    let chk = |v: &Vec<String>, got: &Option<Vec<u64>>| -> bool {
        let mut hs: Vec<u64> = v.iter().map(|s| fast_hash(s)).collect();
        hs.sort();
        match got { None => hs.is_empty(), Some(g) => &hs == g }
    };
    if !(chk(&hosts, &f.hostnames) && chk(&ents, &f.entities) && chk(&nhosts, &f.not_hostnames) && chk(&nents, &f.not_entities)) {
        return Err(format!("location strings of {:?} do not hash to the parsed rule's vectors", line));
    }
    let plain = f.plain_css_selector().map(|s| s.to_string());
    let json = serde_json::to_string(&ProceduralOrActionFilter {
        selector: plain.clone().map(|s| vec![CosmeticFilterOperator::CssSelector(s)]).unwrap_or(f.selector.clone()),
        action: f.action.clone(),
    })
    .unwrap();
    let coq = format!(
        "(mkRule {} {} {} {} {} {} {} {} {} {})",
        cstrs(&hosts), cstrs(&ents), cstrs(&nhosts), cstrs(&nents),
        cbool(f.mask.contains(CosmeticFilterMask::UNHIDE)), cbool(f.mask.contains(CosmeticFilterMask::SCRIPT_INJECT)),
        copt(&plain, |s| hxs(s)), cbool(f.action.is_some()), hxs(&json), cn(f.permission.verif_bits())
    );
    let mut locations = hosts;
    locations.extend(ents);
    locations.extend(nhosts);
    locations.extend(nents);
    Ok(ModelRule { coq, locations })
}

fn cbin(v: &[(u64, Vec<String>)]) -> String {
    clist(v, |(h, b)| format!("({}, {})", cn(h), clist(b, |s| format!("({}, 0%N)", hxs(s)))))
}
fn cbin_perm(v: &[(u64, Vec<(String, u8)>)]) -> String {
    clist(v, |(h, b)| format!("({}, {})", cn(h), clist(b, |(s, p)| format!("({}, {})", hxs(s), cn(p)))))
}

struct Run {
    host: String,
    dom: String,
    failures: Vec<String>,
    exprs: Vec<(String, bool)>,
    got: Value,
}

fn run_case(lines: &[String], perms: &[u8], url: &str) -> Option<Run> {
    let opts = |p: u8| adblock::lists::ParseOptions { permissions: PermissionMask::from_bits(p), ..Default::default() };
    let req = Request::new(url, url, "document").ok()?;
    let host = req.hostname.clone();
    if host.is_empty() {
        return None;
    }
    let mut failures = vec![];
    // --- psl answer + contract
    let (ds, de) = get_host_domain(&host);
    if !(de == host.len() && ds < de && host.is_char_boundary(ds) && (ds == 0 || host.as_bytes()[ds - 1] == b'.') && host.as_bytes()[ds] != b'.') {
        failures.push(format!("psl contract: get_host_domain({:?}) = ({}, {})", host, ds, de));
        return Some(Run { host, dom: String::new(), failures, exprs: vec![], got: json!(null) });
    }
    let dom = host[ds..de].to_string();

    // --- label hooks, hashes mapped back to strings through every substring of the host
    let mut sub: HashMap<u64, String> = HashMap::new();
    let idx: Vec<usize> = (0..=host.len()).filter(|i| host.is_char_boundary(*i)).collect();
    for (a, i) in idx.iter().enumerate() {
        for j in &idx[a..] {
            sub.entry(fast_hash(&host[*i..*j])).or_insert(host[*i..*j].to_string());
        }
    }
    let back = |hs: &[u64], what: &str, failures: &mut Vec<String>| -> Vec<String> {
        hs.iter()
            .map(|h| match sub.get(h) {
                Some(s) => s.clone(),
                None => {
                    failures.push(format!("{}: hash {} is not the hash of a substring of {:?}", what, h, host));
                    "?".to_string()
                }
            })
            .collect()
    };
    let ent = back(&cv::get_entity_hashes_from_labels(&host, &dom), "entity hashes", &mut failures);
    let hn = back(&cv::get_hostname_hashes_from_labels(&host, &dom), "hostname hashes", &mut failures);
    let hwps = cv::get_hostname_without_public_suffix(&host, &dom).map(|(a, b)| (a.to_string(), b.to_string()));
    let got_s: BTreeSet<String> = ent.iter().chain(hn.iter()).cloned().collect();
    let want_s = s_host(&host, &dom);
    if got_s != want_s {
        failures.push(format!("lookup strings of {:?} (domain {:?}) are {:?}, S host is {:?}", host, dom, got_s, want_s));
    }
    let e_labels = format!(
        "strs_eq (entity_strings {h} {d}) {e} && strs_eq (hostname_strings {h} {d}) {n} && set_eqb (S_host {h} {d}) {all} && opt_eqb (pair_eqb str_eqb str_eqb) (get_hostname_without_public_suffix {h} {d}) {w}",
        h = hxs(&host), d = hxs(&dom), e = cstrs(&ent), n = cstrs(&hn),
        all = cstrs(&got_s.iter().cloned().collect::<Vec<_>>()),
        w = copt(&hwps, |(a, b)| format!("({}, {})", hxs(a), hxs(b)))
    );

    // --- engine
    let mut set = adblock::FilterSet::new(false);
    for (l, p) in lines.iter().zip(perms.iter()) {
        set.add_filters([l], opts(*p));
    }
    let mut engine = Engine::from_filter_set(set, true);
    engine.use_resources(resources());
    engine.use_tags(&["on"]);
    let res = engine.url_cosmetic_resources(url);
    let d = dump_cosmetic(&engine);

    // --- model rules
    let mut mrules = vec![];
    let mut table: BTreeMap<String, u64> = BTreeMap::new();
    let mut candidates: BTreeSet<String> = BTreeSet::new();
    for (l, p) in lines.iter().zip(perms.iter()) {
        if let Ok(ParsedFilter::Cosmetic(f)) = parse_filter(l, false, opts(*p)) {
            match model_rule(l, &f) {
                Ok(m) => {
                    for x in &m.locations {
                        table.insert(x.clone(), fast_hash(x));
                    }
                    if f.mask.contains(CosmeticFilterMask::SCRIPT_INJECT) {
                        if let Some(s) = f.plain_css_selector() {
                            candidates.insert(s.to_string());
                        }
                    }
                    mrules.push(m.coq);
                }
                Err(e) => failures.push(e),
            }
        }
    }
    // label-delimited substrings of the host (what the model may hash)
    let mut starts = vec![0usize];
    let mut ends = vec![host.len()];
    for (i, b) in host.bytes().enumerate() {
        if b == b'.' {
            starts.push(i + 1);
            ends.push(i);
        }
    }
    for a in &starts {
        for b in &ends {
            if a <= b {
                table.insert(host[*a..*b].to_string(), fast_hash(&host[*a..*b]));
            }
        }
    }
    let tbl: Vec<(String, u64)> = table.into_iter().collect();
    let hfun = format!("(table_hash {})", clist(&tbl, |(s, v)| format!("({}, {})", hxs(s), cn(v))));
    let uwf = "(fun _ : N => false)";
    let rules_coq = format!("[{}]", mrules.join("; "));

    // --- injected scripts: which candidate +js(..) argument strings are present
    let store = engine.verif_resources();
    let mut present: Vec<String> = vec![];
    let mut total = 0usize;
    let mut blocks: HashMap<String, String> = HashMap::new();
    let mut reqs: BTreeMap<String, u8> = BTreeMap::new();
    for c in &candidates {
        if c.is_empty() {
            continue;
        }
        let b = store.get_scriptlet_resources([(c.as_str(), PermissionMask::from_bits(255))]);
        // permission requirement of the candidate, probed through the public API
        let mut need = 3u8;
        for m in 0u8..4 {
            if !store.get_scriptlet_resources([(c.as_str(), PermissionMask::from_bits(m))]).is_empty() {
                need &= m;
            }
        }
        reqs.insert(c.clone(), need);
        if b.is_empty() {
            failures.push(format!("harness assumption: +js({}) does not resolve", c));
            continue;
        }
        if let Some(prev) = blocks.insert(b.clone(), c.clone()) {
            failures.push(format!("harness assumption: +js({}) and +js({}) give the same block", prev, c));
        }
        if res.injected_script.contains(&b) {
            present.push(c.clone());
            total += b.len();
        }
    }
    if total != res.injected_script.len() {
        failures.push(format!("injected_script has text that is not a block of a +js rule of the list: {:?}", res.injected_script));
    }

    // --- oracle
    let reqf = |a: &str| -> u8 { reqs.get(a).copied().unwrap_or(0) };
    let want = reference(lines, perms, &reqf, &host, &dom);
    let noreq = |_: &str| -> u8 { 0 };
    let want_noperm = reference(lines, perms, &noreq, &host, &dom);
    let perm_withheld = want_noperm.scripts.len() > want.scripts.len();
    let perm_injected = want.scripts.iter().any(|a| reqf(a) != 0);
    let canon = |s: &String| -> String { serde_json::from_str::<Value>(s).map(|v| v.to_string()).unwrap_or(s.clone()) };
    let got = Expected {
        hide: res.hide_selectors.iter().cloned().collect(),
        proc_: res.procedural_actions.iter().map(canon).collect(),
        exc: res.exceptions.iter().cloned().collect(),
        scripts: present.iter().cloned().collect(),
        gh: res.generichide,
    };
    if got != want {
        failures.push(format!("url_cosmetic_resources gives {:?}, the covers-based specification gives {:?}", got, want));
    }
    // which lines are rules at all: the statement from the rule text vs the crate's parser
    for (l, p) in lines.iter().zip(perms.iter()) {
        if let Some(want_acc) = ref_accepted(l) {
            let parsed = parse_filter(l, false, opts(*p));
            let got_acc = matches!(parsed, Ok(ParsedFilter::Cosmetic(_)));
            if got_acc != want_acc {
                failures.push(format!("line {:?}: the parser says {} but by the rule text the line is {}", l,
                    match &parsed { Ok(ParsedFilter::Cosmetic(_)) => "accepted (cosmetic rule)".to_string(), Ok(ParsedFilter::Network(_)) => "network rule".to_string(), Err(e) => format!("rejected ({:?})", e) },
                    if want_acc { "a rule" } else { "not a rule" }));
            }
        }
    }
    // second stage of generic hiding: unscoped and negated-only hide rules with a class/id key are
    // handed out by hidden_class_id_selectors, minus the selectors excepted for this host
    let mut keyed: BTreeSet<String> = BTreeSet::new();
    let (mut classes, mut ids): (BTreeSet<String>, BTreeSet<String>) = Default::default();
    for l in lines {
        if ref_accepted(l) != Some(true) {
            continue;
        }
        let Some(t) = parse_text(l) else { continue };
        if let (true, false, Content::Hide(sel)) = (t.pos.is_empty(), t.unhide, &t.content) {
            if let Some(k) = ref_key(sel) {
                keyed.insert(sel.clone());
                let mut cs = k.chars();
                match cs.next() {
                    Some('.') => { classes.insert(cs.collect()); }
                    _ => { ids.insert(cs.collect()); }
                }
            }
        }
    }
    let got_keyed: BTreeSet<String> = engine.hidden_class_id_selectors(classes.iter(), ids.iter(), &res.exceptions).into_iter().collect();
    let want_keyed: BTreeSet<String> = keyed.iter().filter(|s| !want.exc.contains(*s)).cloned().collect();
    if got_keyed != want_keyed {
        failures.push(format!("hidden_class_id_selectors(classes {:?}, ids {:?}) gives {:?}; the generic class/id rules not excepted for {:?} are {:?}", classes, ids, got_keyed, host, want_keyed));
    }

    // --- Coq expressions
    let sets = |x: &std::collections::HashSet<String>| -> Vec<String> {
        let mut v: Vec<String> = x.iter().cloned().collect();
        v.sort();
        v
    };
    let e_bins = format!(
        "let c := build_cache {h} {uw} {rules} in bin_eqb THide {b1} (db c) && bin_eqb TUnhide {b2} (db c) && bin_eqb TInject {b3} (db c) && bin_eqb TUninject {b4} (db c) && bin_eqb TProc {b5} (db c) && bin_eqb TProcExc {b6} (db c) && set_eqb {misc} (misc (gen c)) && Nat.eqb (length (db c)) {nk}",
        h = hfun, uw = uwf, rules = rules_coq,
        b1 = cbin(&d.hide), b2 = cbin(&d.unhide), b3 = cbin_perm(&d.inject_script), b4 = cbin(&d.uninject_script),
        b5 = cbin(&d.procedural_action), b6 = cbin(&d.procedural_action_exception),
        misc = cstrs(&d.misc_generic_selectors),
        nk = d.hide.len() + d.unhide.len() + d.inject_script.len() + d.uninject_script.len() + d.procedural_action.len() + d.procedural_action_exception.len()
    );
    let e_res = format!(
        "resources_eqb_req (table_hash {req}) (hostname_cosmetic_resources {h} (build_cache {h} {uw} {rules}) {host} {dom} {gh}) {hide} {proc_} {exc} {scr} {gh}",
        req = clist(&reqs.iter().collect::<Vec<_>>(), |(s, v)| format!("({}, {})", hxs(s), cn(v))),
        h = hfun, uw = uwf, rules = rules_coq, host = hxs(&host), dom = hxs(&dom), gh = cbool(res.generichide),
        hide = cstrs(&sets(&res.hide_selectors)), proc_ = cstrs(&sets(&res.procedural_actions)),
        exc = cstrs(&sets(&res.exceptions)), scr = cstrs(&present)
    );
    let specific = !res.procedural_actions.is_empty() || !res.exceptions.is_empty() || !present.is_empty()
        || res.hide_selectors.iter().any(|s| !d.misc_generic_selectors.contains(s));
    let (negonly_any, negonly_by_entity, negonly_by_hostname) = negonly_cover(lines, &host, &dom);
    let got_json = json!({"negonly_any": negonly_any, "negonly_by_entity": negonly_by_entity, "negonly_by_hostname": negonly_by_hostname, "keyed_generic": got_keyed.iter().cloned().collect::<Vec<_>>(), "perm_withheld": perm_withheld, "perm_injected": perm_injected, "hide_selectors": sets(&res.hide_selectors), "procedural_actions": sets(&res.procedural_actions),
        "exceptions": sets(&res.exceptions), "scripts": present, "generichide": res.generichide});
    Some(Run {
        host: host.clone(),
        dom,
        failures,
        exprs: vec![(e_labels, host.contains('.')), (e_bins, !d.hide.is_empty() || !d.unhide.is_empty()), (e_res, specific)],
        got: got_json,
    })
}

fn strs(v: &Value) -> Vec<String> {
    v.as_array().map(|a| a.iter().map(|x| x.as_str().unwrap_or("").to_string()).collect()).unwrap_or_default()
}

fn main() {
    let a = args();
    if let Some(p) = &a.replay {
        let v: Value = serde_json::from_str(&std::fs::read_to_string(p).unwrap()).unwrap();
        let rp = &v["replay"];
        let rules = strs(&rp["rules"]);
        let perms: Vec<u8> = rp["permissions"].as_array().map(|a| a.iter().map(|x| x.as_u64().unwrap_or(0) as u8).collect()).unwrap_or_default();
        let perms = if perms.len() == rules.len() { perms } else { vec![0; rules.len()] };
        let url = rp["url"].as_str().unwrap_or("");
        let mut bad = false;
        match run_case(&rules, &perms, url) {
            Some(run) => {
                println!("host={:?} domain={:?} impl={}", run.host, run.dom, run.got);
                for f in &run.failures {
                    println!("FAIL: {}", f);
                    bad = true;
                }
            }
            None => println!("url does not parse"),
        }
        if bad {
            println!("VIOLATION property=C16 replay={}", p.display());
            std::process::exit(1);
        }
        return;
    }
    let mut r = Rng::new(a.seed);
    let mut cs = Cases::new(&a.out, "C17_Model C16_Model");
    let mut sm = Summary::default();
    sm.rule = "(a) lists built around lines whose location list consists ONLY of negations, in all combinations of negated hostnames (~a.com) and negated entities (~shop.*), 1-3 locations, names drawn from the page host (label-aligned suffixes of the host / of the host without its public suffix) or not covering it; ## and #@#; hide, +js(..) scriptlet, blanket #@#+js(), :style/:remove/:remove-attr/:remove-class; plus mixed lists (positive and negated locations), the same body scoped positively / unscoped / excepted, lines of the general grammar and an optional generichide exception; each list asked about on 3-4 hosts: the page host, a subdomain, the same name under another public suffix (covered by negated entities only), an unrelated host; which lines are rules at all is stated from the rule text (exception with a negated location = double negation, generic exception / scriptlet / action rejected) and compared with the parser, hidden_class_id_selectors is asked for the class/id-keyed generic rules. (b) lists of 1-10 cosmetic rules (0-3 locations each: hosts, label-aligned and non-aligned suffixes, entity forms name.*, negations, public suffixes, IDN; ## and #@#; hide / :style / :remove / :remove-attr / :remove-class / +js(args) / blanket #@#+js(); duplicates) plus optional @@||host^$generichide, x page hosts from a 23-host universe (multi-label public suffixes co.uk, co.jp, github.io; depth up to 6; bare public suffix; localhost; IP; trailing dot; IDN) with www./x.y. prefixes; resources loaded through Engine::use_resources (3 template scriptlets with aliases); non-trivial = labels case on a dotted host, bins case with a non-empty hide/unhide bin, resources case where something host-specific (selector outside the misc store, procedural action, exception, scriptlet) is returned".into();

    // every host of the universe once for the label functions, then random cases
    let n = 700 * a.scale;
    for i in 0..n {
        let host = if i < HOSTS.len() { HOSTS[i].to_string() } else { gen_page_host(&mut r) };
        let rules = gen_rules(&mut r, &host);
        let url = format!("https://{}/page", host);
        // permissions: lists loaded with different masks (most rules with none)
        let perms: Vec<u8> = rules.iter().map(|l| if l.contains("+js(p") && r.chance(3, 4) { r.below(4) as u8 } else if r.chance(1, 8) { r.below(4) as u8 } else { 0 }).collect();
        let Some(run) = run_case(&rules, &perms, &url) else { cs.stat("url_error"); continue };
        sm.oracle_evaluations += 2;
        let desc = json!({"rules": rules, "permissions": perms, "url": url, "host": run.host, "domain": run.dom, "impl": run.got});
        for f in &run.failures {
            sm.failure(None, f, desc.clone());
        }
        if run.got["generichide"] == json!(true) { cs.stat("generichide") }
        for l in &rules {
            if let Some(a) = gh_applies(l, &run.host) {
                if l.contains(',') || l.starts_with("@@$") {
                    cs.stat(if a { "generichide_with_options_applies" } else { "generichide_with_options_does_not_apply" });
                }
            }
        }
        if run.got["perm_withheld"] == json!(true) { cs.stat("scriptlet_withheld_for_permission") }
        if run.got["perm_injected"] == json!(true) { cs.stat("permissioned_scriptlet_injected") }
        if run.got["scripts"].as_array().map(|x| !x.is_empty()).unwrap_or(false) { cs.stat("scripts_injected") }
        if run.got["exceptions"].as_array().map(|x| !x.is_empty()).unwrap_or(false) { cs.stat("exceptions_nonempty") }
        if run.got["procedural_actions"].as_array().map(|x| !x.is_empty()).unwrap_or(false) { cs.stat("procedural_nonempty") }
        for (e, nt) in run.exprs {
            cs.case(e, desc.clone(), nt);
        }
    }
    // ---------------- lists built around lines whose location list consists only of negations
    // (and mixed lists), each asked about on 3-4 hosts
    const NEG_HOSTS: &[&str] = &["example.com", "sub.example.com", "a.b.example.com", "example.co.uk", "www.example.co.uk", "x.foo.net", "foo.net", "bar.example.org", "b.example.github.io", "bücher.example", "example.co.jp", "localhost"];
    let n_neg = 110 * a.scale;
    for i in 0..n_neg {
        let page = NEG_HOSTS[if i < NEG_HOSTS.len() { i } else { r.below(NEG_HOSTS.len()) }].to_string();
        let mut line_stats = vec![];
        let rules = gen_neg_rules(&mut r, &page, &mut line_stats);
        cs.stat("negonly_list");
        for k in &line_stats {
            cs.stat(k);
        }
        for l in &rules {
            if let Some((before, unhide, after)) = split_line(l) {
                if let Some(locs) = text_locations(before) {
                    if !locs.is_empty() && locs.iter().all(|(n, _, _)| *n) {
                        let (e, h) = (locs.iter().any(|(_, e, _)| *e), locs.iter().any(|(_, e, _)| !*e));
                        cs.stat(match (h, e) { (true, true) => "negonly_locations_hostnames_and_entities", (true, false) => "negonly_locations_hostnames", _ => "negonly_locations_entities" });
                        cs.stat(match ref_accepted(l) { Some(true) => "negonly_line_is_a_rule", _ if unhide => "negonly_line_rejected_double_negation", _ => "negonly_line_rejected_other" });
                        if ref_accepted(l) == Some(true) && body_kind(after) != BodyKind::Hide {
                            // documented in CosmeticFilter::hidden_generic_rule: no generic counterpart
                            cs.stat("observation_negonly_scriptlet_or_action_rule_applies_on_no_host");
                        }
                    }
                }
            }
        }
        let perms: Vec<u8> = rules.iter().map(|l| if l.contains("+js(p") && r.chance(3, 4) { r.below(4) as u8 } else if r.chance(1, 8) { r.below(4) as u8 } else { 0 }).collect();
        for host in neg_hosts(&mut r, &page) {
            let url = format!("https://{}/page", host);
            let Some(run) = run_case(&rules, &perms, &url) else { cs.stat("url_error"); continue };
            sm.oracle_evaluations += 4;
            let desc = json!({"rules": rules, "permissions": perms, "url": url, "host": run.host, "domain": run.dom, "impl": run.got});
            for f in &run.failures {
                sm.failure(None, f, desc.clone());
            }
            cs.stat("negonly_host_query");
            cs.stat(match (run.got["negonly_by_entity"] == json!(true), run.got["negonly_by_hostname"] == json!(true)) {
                (true, true) => "negonly_host_covered_by_negated_entity_and_hostname",
                (true, false) => "negonly_host_covered_by_negated_entity",
                (false, true) => "negonly_host_covered_by_negated_hostname",
                _ => "negonly_host_covered_by_neither",
            });
            if run.got["exceptions"].as_array().map(|x| !x.is_empty()).unwrap_or(false) { cs.stat("negonly_exceptions_nonempty") }
            if run.got["keyed_generic"].as_array().map(|x| !x.is_empty()).unwrap_or(false) { cs.stat("negonly_class_id_generic_returned") }
            for (e, nt) in run.exprs {
                cs.case(e, desc.clone(), nt);
            }
        }
    }
    cs.finish();
    sm.write(&a.out, &cs);
}
