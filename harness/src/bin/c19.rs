//! C19 — thread-safe build: concurrent queries equal sequential ones, no deadlock, no poisoning;
//! thread-safe and single-thread builds answer identically.
//!
//! This binary is the DEFAULT (single-thread, RefCell) build of the crate.  It
//!   1. builds /verif/harness_sync (the same crate WITHOUT `unsync-regex-caching`: Mutex regex
//!      cell, `Engine: Send + Sync`) with `cargo build --release --offline` under work/cargo.lock
//!      and fails loudly if that build fails,
//!   2. writes a plan of runs (seeded), lets `c19_sync` execute it: N threads x M mixed queries
//!      (network / csp / generichide via url_cosmetic_resources) on one `Arc<Engine>` with an
//!      aggressive regex discard policy and lock-taking noise operations,
//!   3. recomputes every thread's answers sequentially on the default build for the same seed and
//!      compares: default build == thread-safe build sequential == thread-safe build concurrent;
//!      no panic, no poisoned lock (queries after the run succeed), no hang (watchdog), cache
//!      entries always hold the regex of the rule at their address,
//!   4. for the "pure" runs writes Coq cases: a recorded lock-acquisition order (ticket counter) is
//!      expanded to a fine-grained schedule and replayed through the model (`run` in
//!      C19_Model.v, body = the regex-manager model fed with the touched-rule sets and per-rule
//!      match bits observed on the DEFAULT build); the model's per-thread answers must equal the
//!      concurrent implementation's, and for small complete runs the model's final cache must be
//!      the implementation's dumped cache entry by entry,
//!   5. adds POLICY runs (protocol: `"policy": {"full", "per"}` in a run record, see
//!      harness_sync/src/main.rs): `set_regex_discard_policy` with extreme and changing policies
//!      before and between queries, on one thread (both builds, through Engine and Blocker) and
//!      while other threads query; all of 1.-4. applies to them (pure policy runs give Coq cases);
//!      a call that does not return is reported by the child's watchdog with the stuck operation.
#[path = "../../../harness_sync/src/common.rs"]
mod common;
use common::*;

use adblock::filters::network::{NetworkFilter, NetworkMatchable};
use adblock::regex_manager::RegexManager;
use adblock::request::Request;
use implrun::*;
use serde_json::{json, Value};
use std::collections::{BTreeSet, HashMap};
use std::path::{Path, PathBuf};
use std::process::Command;
use std::sync::atomic::{AtomicUsize, Ordering};
use std::sync::Mutex;
use std::time::{Duration, Instant};

fn verif_dir() -> PathBuf {
    PathBuf::from(env!("CARGO_MANIFEST_DIR")).parent().unwrap().to_path_buf()
}

/// cargo build of the thread-safe harness, serialised with every other cargo build of /verif.
fn build_sync() -> Result<PathBuf, String> {
    // testing the harness itself: a prebuilt c19_sync (e.g. linked against a deliberately broken
    // copy of the crate) instead of the one built from /verif/harness_sync
    if let Ok(p) = std::env::var("C19_SYNC_EXE") {
        eprintln!("C19: using the prebuilt thread-safe binary {} (C19_SYNC_EXE)", p);
        return Ok(PathBuf::from(p));
    }
    let dir = verif_dir().join("harness_sync");
    let lock_dst = dir.join("Cargo.lock");
    if !lock_dst.exists() {
        std::fs::copy("/repo/Cargo.lock", &lock_dst).map_err(|e| format!("copy Cargo.lock: {}", e))?;
    }
    std::fs::create_dir_all(verif_dir().join("work")).ok();
    let run = || {
        Command::new("flock")
            .arg(verif_dir().join("work").join("cargo.lock"))
            .args(["cargo", "build", "--release", "--offline"])
            .current_dir(&dir)
            .env("CARGO_NET_OFFLINE", "true")
            .output()
    };
    let mut o = run().map_err(|e| format!("cannot start cargo: {}", e))?;
    if !o.status.success() && String::from_utf8_lossy(&o.stderr).contains("Cargo.lock") {
        std::fs::copy("/repo/Cargo.lock", &lock_dst).ok();
        o = run().map_err(|e| format!("cannot start cargo: {}", e))?;
    }
    if !o.status.success() {
        let e = String::from_utf8_lossy(&o.stderr);
        let tail: String = e.lines().rev().take(40).collect::<Vec<_>>().into_iter().rev().collect::<Vec<_>>().join("\n");
        return Err(format!("thread-safe build (--no-default-features --features embedded-domain-resolver,full-regex-handling) FAILED:\n{}", tail));
    }
    let exe = dir.join("target").join("release").join("c19_sync");
    if !exe.exists() {
        return Err(format!("{} missing after a successful build", exe.display()));
    }
    Ok(exe)
}

/// Run c19_sync on a plan with a wall-clock limit. Err = (class, message).
fn run_sync(exe: &Path, plan: &Value, dir: &Path, tag: &str, limit: Duration) -> Result<Vec<Value>, (String, String)> {
    let pf = dir.join(format!("c19_plan_{}.json", tag));
    let rf = dir.join(format!("c19_results_{}.json", tag));
    std::fs::write(&pf, serde_json::to_string(plan).unwrap()).unwrap();
    std::fs::remove_file(&rf).ok();
    let mut child = Command::new(exe)
        .arg("--plan")
        .arg(&pf)
        .arg("--out")
        .arg(&rf)
        .stderr(std::process::Stdio::piped())
        .spawn()
        .map_err(|e| ("spawn".to_string(), format!("cannot start {}: {}", exe.display(), e)))?;
    let t0 = Instant::now();
    let status = loop {
        match child.try_wait() {
            Ok(Some(s)) => break s,
            Ok(None) => {
                if t0.elapsed() > limit {
                    child.kill().ok();
                    child.wait().ok();
                    let mut err = String::new();
                    if let Some(mut s) = child.stderr.take() {
                        use std::io::Read;
                        s.read_to_string(&mut err).ok();
                    }
                    return Err(("hang".into(), format!("c19_sync did not finish within {} s (killed): deadlock or livelock {}", limit.as_secs(), err)));
                }
                std::thread::sleep(Duration::from_millis(50));
            }
            Err(e) => return Err(("wait".into(), format!("{}", e))),
        }
    };
    let mut err = String::new();
    if let Some(mut s) = child.stderr.take() {
        use std::io::Read;
        s.read_to_string(&mut err).ok();
    }
    if !status.success() {
        let class = if status.code() == Some(3) { "hang" } else { "crash" };
        return Err((class.into(), format!("c19_sync exited with {:?}: {}", status.code(), err.chars().rev().take(1500).collect::<String>().chars().rev().collect::<String>())));
    }
    let v: Value = serde_json::from_str(&std::fs::read_to_string(&rf).map_err(|e| ("io".to_string(), e.to_string()))?)
        .map_err(|e| ("json".to_string(), e.to_string()))?;
    std::fs::remove_file(&pf).ok();
    std::fs::remove_file(&rf).ok();
    Ok(v["results"].as_array().cloned().unwrap_or_default())
}

fn spec_of(r: &Value) -> RunSpec {
    RunSpec {
        seed: r["seed"].as_u64().unwrap(),
        mode: Mode::parse(r["mode"].as_str().unwrap_or("rich")),
        threads: r["threads"].as_u64().unwrap() as usize,
        queries: r["queries"].as_u64().unwrap() as usize,
    }
}

fn policy_of(r: &Value) -> Option<PolicyPlan> {
    let p = r.get("policy").filter(|p| p.is_object())?;
    let spec = spec_of(r);
    Some(policy_plan(spec.seed, spec.queries, p["full"].as_bool().unwrap_or(false), p["per"].as_u64().unwrap_or(4) as usize))
}

/// The record a failure of this run is replayed from.
fn replay_of(run: &Value) -> Value {
    let spec = spec_of(run);
    let mut v = json!({"seed": spec.seed, "mode": spec.mode.name(), "threads": spec.threads, "queries": spec.queries, "noise": run["noise"], "repeat": 10});
    if run.get("policy").map(|p| p.is_object()).unwrap_or(false) {
        v["policy"] = run["policy"].clone();
    }
    v
}

/// First `C19-STUCK {json}` line of the child's stderr: (run index, description of the operation).
fn stuck_op(msg: &str) -> Option<(usize, String)> {
    let at = msg.find("C19-STUCK ")?;
    let line = msg[at + 10..].lines().next()?;
    let v: Value = serde_json::from_str(line).ok()?;
    Some((v["run"].as_u64()? as usize, format!("thread {}: {} (not returned after {} s)", v["thread"], v["op"].as_str().unwrap_or("?"), v["seconds"])))
}

struct DefaultSide {
    digests: Vec<String>,
    retag: String,
    ms: u128,
    /// policy runs: per-thread digests of the sequential policy walk on the default build, panics
    policy_digests: Option<Vec<String>>,
    policy_failures: Vec<String>,
}

/// The same run on the default build, one thread.
/// The single-thread build walks the same script; a panic there (e.g. time arithmetic under an
/// extreme discard policy) is a failure of the run, not of the harness.
fn default_side(spec: &RunSpec, policy: Option<&PolicyPlan>) -> DefaultSide {
    match implrun::catch(std::panic::AssertUnwindSafe(|| default_side_inner(spec, policy))) {
        Ok(d) => d,
        Err(p) => DefaultSide {
            digests: vec![],
            retag: String::new(),
            ms: 0,
            policy_digests: None,
            policy_failures: vec![format!("the single-thread build panicked while walking the script sequentially: {}", p)],
        },
    }
}
fn default_side_inner(spec: &RunSpec, policy: Option<&PolicyPlan>) -> DefaultSide {
    let t0 = Instant::now();
    let w = gen_workload(spec);
    let mut e = build_engine(&w);
    let digests = w.queries.iter().map(|qs| format!("{:016x}", run_sequential(&e, qs, false).0)).collect();
    // policy run: the same sequential walk through the script on the single-thread build
    let mut policy_digests = None;
    let mut policy_failures = vec![];
    if let Some(plan) = policy {
        let mut pe = build_engine(&w);
        let (pa, set_panics) = policy_sequential(&mut pe, &w, plan, &mut |_| {});
        policy_failures.extend(set_panics);
        for (ti, v) in pa.iter().enumerate() {
            if let Some(qi) = v.iter().position(|a| a.starts_with("PANIC")) {
                let k = qi / plan.per;
                policy_failures.push(format!("thread list {} query {} ({}) in phase {} under policy {}: {}", ti, qi, w.queries[ti][qi].describe(), k, plan.script[k.min(plan.script.len() - 1)].describe(), v[qi]));
            }
        }
        policy_digests = Some(pa.iter().map(|v| format!("{:016x}", digest_of(v))).collect());
    }
    // same post phase as the thread-safe side, so that the engines have the same history
    e.verif_blocker().set_regex_discard_policy(lenient_policy());
    for qs in &w.queries {
        for q in qs.iter().take(POST_QUERIES) {
            let _ = answer(&e, q);
        }
    }
    if policy.is_some() {
        e.set_regex_discard_policy(adblock::regex_manager::RegexManagerDiscardPolicy { cleanup_interval: extreme(6), discard_unused_time: extreme(6) });
        e.set_regex_discard_policy(adblock::regex_manager::RegexManagerDiscardPolicy { cleanup_interval: extreme(1), discard_unused_time: extreme(6) });
    }
    let retag = format!("{:016x}", retag_and_query(&mut e, &w));
    DefaultSide { digests, retag, ms: t0.elapsed().as_millis(), policy_digests, policy_failures }
}

/// Expand a lock-acquisition order into a schedule of the model, interleaving the Post events of
/// other threads at random.  Returns (atomic-body schedule: Acquire, Body, Release, Post events;
/// phase schedule: Acquire, Tick, Probe, Commit, Release, Post events) of the same run.
fn fine_schedule(tickets: &[usize], n: usize, r: &mut Rng, finish: bool) -> (Vec<usize>, Vec<usize>) {
    // pc: 0 acquire, 1 tick, 2 probe, 3 commit, 4 release, 5 post
    let mut pc = vec![0u8; n];
    let mut holder: Option<usize> = None;
    let mut next = 0;
    let mut coarse = vec![];
    let mut phases = vec![];
    loop {
        if next == tickets.len() && holder.is_none() && !finish {
            break;
        }
        let mut enabled: Vec<usize> = vec![];
        if let Some(h) = holder {
            enabled.push(h);
        }
        for i in 0..n {
            if pc[i] == 5 {
                enabled.push(i);
            }
        }
        if holder.is_none() && next < tickets.len() && pc[tickets[next]] == 0 {
            enabled.push(tickets[next]);
        }
        if enabled.is_empty() {
            break;
        }
        let i = r.pick(&enabled);
        phases.push(i);
        // Tick and Probe are stuttering steps of the atomic model; Commit is its Body event
        if pc[i] != 1 && pc[i] != 2 {
            coarse.push(i);
        }
        match pc[i] {
            0 => {
                pc[i] = 1;
                holder = Some(i);
                next += 1;
            }
            4 => {
                pc[i] = 5;
                holder = None;
            }
            5 => pc[i] = 0,
            k => pc[i] = k + 1,
        }
    }
    (coarse, phases)
}

struct PureModel {
    tbl: String,
    /// per (thread, index): (kind code, request id, touched rule keys, default-build bit)
    q: HashMap<(usize, usize), (u8, usize, Vec<usize>, bool)>,
    mt: BTreeSet<(usize, usize)>,
}

/// Observe, on the DEFAULT build, which regex rules each query consults (usage counters of the
/// regex cache before/after the query on a probe engine) and what each consulted rule answers for
/// that request in isolation (fresh RegexManager per evaluation).
fn observe_pure(w: &Workload, need: &[usize]) -> PureModel {
    let probe = build_engine(w);
    let addrs = rule_addresses(&probe, &w.rules);
    let usage = |e: &adblock::Engine| -> HashMap<u64, usize> { e.get_regex_debug_info().regex_data.iter().map(|x| (x.id, x.usage_count)).collect() };
    let mut reqs: Vec<String> = vec![];
    let mut q = HashMap::new();
    let mut mt = BTreeSet::new();
    let parsed: Vec<Option<NetworkFilter>> = w.rules.iter().map(|l| NetworkFilter::parse(l, true, Default::default()).ok()).collect();
    for (ti, qs) in w.queries.iter().enumerate() {
        for (qi, qu) in qs.iter().enumerate().take(need[ti]) {
            let (u, s, t) = match qu.kind {
                QKind::Cosmetic => (qu.url.as_str(), qu.url.as_str(), "document"),
                _ => (qu.url.as_str(), qu.source.as_str(), qu.rtype),
            };
            let key = format!("{}|{}|{}", u, s, t);
            let rid = match reqs.iter().position(|x| *x == key) {
                Some(p) => p + 1,
                None => {
                    reqs.push(key);
                    reqs.len()
                }
            };
            let before = usage(&probe);
            let (_, bit) = answer(&probe, qu);
            let after = usage(&probe);
            let mut touched: Vec<usize> = vec![];
            for (a, c) in after.iter() {
                if *c > before.get(a).copied().unwrap_or(0) {
                    let idx = addrs.iter().find(|x| x.0 == *a).map(|x| x.1).unwrap_or(usize::MAX);
                    touched.push(if idx == usize::MAX { 0 } else { idx + 1 });
                }
            }
            touched.sort();
            if let Ok(req) = Request::new(u, s, t) {
                for k in &touched {
                    if *k > 0 {
                        if let Some(f) = &parsed[*k - 1] {
                            // never share a RegexManager between rules that do not outlive it
                            if f.matches(&req, &mut RegexManager::default()) {
                                mt.insert((1000 + *k, rid));
                            }
                        }
                    }
                }
            }
            q.insert((ti, qi), (qu.kind_code(), rid, touched, bit));
        }
    }
    let tbl = clist(&(1..=w.rules.len()).collect::<Vec<_>>(), |k| format!("({}, {})", cn(*k), cn(1000 + *k)));
    PureModel { tbl, q, mt }
}

fn coq_query(m: &(u8, usize, Vec<usize>, bool), cleanup: bool) -> String {
    let kind = ["QNetwork", "QCsp", "QGenericHide"][m.0 as usize];
    format!("mkQ {} {} {} {}", kind, cn(m.1), clist(&m.2, |k| cn(*k)), cbool(cleanup))
}

fn coq_sched(s: &[usize]) -> String {
    format!("(map N.to_nat {})", clist(s, |i| cn(*i)))
}

fn coq_bits(b: &[Vec<bool>]) -> String {
    clist(b, |v| clist(v, |x| cbool(*x).to_string()))
}

struct Outcome {
    failures: Vec<(String, Value)>,
}

/// Compare one run result of the thread-safe build with the default build; collect failures.
fn judge(res: &Value, d: &DefaultSide, replay: &Value) -> Outcome {
    let mut f = vec![];
    let strs = |v: &Value| -> Vec<String> { v.as_array().map(|a| a.iter().map(|x| x.as_str().unwrap_or("").to_string()).collect()).unwrap_or_default() };
    let seq = strs(&res["seq_digest"]);
    let conc = strs(&res["conc_digest"]);
    if !res["panics"].as_array().map(|a| a.is_empty()).unwrap_or(true) {
        f.push((format!("panic during concurrent queries: {}", res["panics"][0]), replay.clone()));
    }
    if res["post_ok"].as_bool() != Some(true) {
        f.push((format!("after the run the shared engine is not usable / answers changed: {}", res["post_msg"]), replay.clone()));
    }
    if !res["mismatches"].as_array().map(|a| a.is_empty()).unwrap_or(true) {
        f.push((format!("concurrent answer differs from the sequential one (thread-safe build): {}", res["mismatches"][0]), replay.clone()));
    } else if seq != conc {
        f.push(("concurrent and sequential answer digests differ (thread-safe build)".to_string(), replay.clone()));
    }
    if seq != d.digests {
        let t = seq.iter().zip(d.digests.iter()).position(|(a, b)| a != b).unwrap_or(0);
        f.push((format!("thread-safe and single-thread builds answer differently (sequential, thread list {})", t), replay.clone()));
    }
    // policy runs: the sequential walk through the script, on both builds
    if let Some(pd) = &d.policy_digests {
        let ps = &res["policy"]["sequential"];
        if res.get("policy").is_none() {
            f.push(("policy run: the thread-safe side returned no policy record".to_string(), replay.clone()));
        }
        if !ps["set_panics"].as_array().map(|a| a.is_empty()).unwrap_or(true) {
            f.push((format!("set_regex_discard_policy panicked (thread-safe build, one thread): {}", ps["set_panics"][0]), replay.clone()));
        }
        if !ps["mismatches"].as_array().map(|a| a.is_empty()).unwrap_or(true) {
            f.push((format!("answer after a policy change differs from the reference (thread-safe build, one thread): {}", ps["mismatches"][0]), replay.clone()));
        } else if strs(&ps["digest"]) != seq {
            f.push(("answers of the sequential policy walk differ from the reference (thread-safe build)".to_string(), replay.clone()));
        }
        for m in d.policy_failures.iter().take(2) {
            f.push((format!("single-thread build, policy walk: {}", m), replay.clone()));
        }
        if pd != &d.digests {
            let t = pd.iter().zip(d.digests.iter()).position(|(a, b)| a != b).unwrap_or(0);
            f.push((format!("single-thread build: answers after policy changes differ from the reference (thread list {})", t), replay.clone()));
        }
    }
    if !res["after_tag_switch_mismatches"].as_array().map(|a| a.is_empty()).unwrap_or(true) {
        f.push((format!("after a tag switch (tagged rules freed and allocated again) threads querying the shared engine get another answer than one thread on a fresh engine under the same tags: {}", res["after_tag_switch_mismatches"][0]), replay.clone()));
    }
    if let Some(e) = res.get("retag_error") {
        f.push((format!("exclusive phase after the run failed: {}", e), replay.clone()));
    } else if res["retag_digest"].as_str() != Some(d.retag.as_str()) {
        f.push(("answers after use_tags (exclusive &mut phase, lock + clear()) differ between the builds".to_string(), replay.clone()));
    }
    if !res["cache_bad_entries"].as_array().map(|a| a.is_empty()).unwrap_or(true) || res["inrun_bad_seen"].as_u64().unwrap_or(0) > 0 {
        f.push((
            format!("a cache entry holds a regex that is not the one of the rule at its address: {} (in-run bad {})", res["cache_bad_entries"], res["inrun_bad_seen"]),
            replay.clone(),
        ));
    }
    Outcome { failures: f }
}

fn locate_cross_build(exe: &Path, spec: &RunSpec, out: &Path) -> String {
    let plan = json!({"stall_seconds": 600, "parallel": 1, "runs": [{"seed": spec.seed, "mode": spec.mode.name(), "threads": spec.threads,
        "queries": spec.queries, "prefix": 0, "noise": false, "full": true}]});
    let Ok(rs) = run_sync(exe, &plan, out, "locate", Duration::from_secs(3000)) else { return "could not re-run".into() };
    let w = gen_workload(spec);
    let e = build_engine(&w);
    for (ti, qs) in w.queries.iter().enumerate() {
        let (_, mine, _) = run_sequential(&e, qs, true);
        for (qi, a) in mine.iter().enumerate() {
            let theirs = rs[0]["seq_answers"][ti][qi].as_str().unwrap_or("");
            if theirs != a {
                return format!("thread {} query {} ({}): single-thread build `{}` / thread-safe build `{}`", ti, qi, qs[qi].describe(), a, theirs);
            }
        }
    }
    "digests differ but no differing answer found on re-run".into()
}

fn main() {
    let a = args();
    let exe = match build_sync() {
        Ok(p) => p,
        Err(m) => {
            eprintln!("C19: {}", m);
            if a.replay.is_some() {
                println!("VIOLATION property=C19 replay={}", a.replay.as_ref().unwrap().display());
            }
            std::process::exit(2);
        }
    };

    // ------------------------------------------------------------------ replay
    if let Some(p) = &a.replay {
        let v: Value = serde_json::from_str(&std::fs::read_to_string(p).unwrap()).unwrap();
        let rp = &v["replay"];
        let spec = spec_of(rp);
        let repeat = rp["repeat"].as_u64().unwrap_or(10);
        let mut run = json!({"seed": spec.seed, "mode": spec.mode.name(), "threads": spec.threads,
            "queries": spec.queries, "prefix": 0, "noise": rp["noise"].as_bool().unwrap_or(true), "repeat": repeat});
        if rp.get("policy").map(|p| p.is_object()).unwrap_or(false) {
            run["policy"] = rp["policy"].clone();
        }
        let policy = policy_of(&run);
        if let Some(pl) = &policy {
            println!("policy run: {} phases of {} queries per thread", pl.script.len(), pl.per);
            for (k, ph) in pl.script.iter().enumerate() {
                println!("  phase {}: {}", k, ph.describe());
            }
        }
        let plan = json!({"stall_seconds": 300, "op_seconds": 60, "parallel": 1, "runs": [run]});
        let d = default_side(&spec, policy.as_ref());
        let mut bad = 0;
        match run_sync(&exe, &plan, &a.out, "replay", Duration::from_secs(3000)) {
            Err((c, m)) => {
                println!("run failed [{}]: {}", c, m);
                if let Some((_, op)) = stuck_op(&m) {
                    println!("stuck operation: {}", op);
                }
                bad += 1;
            }
            Ok(rs) => {
                for (i, r) in rs.iter().enumerate() {
                    let o = judge(r, &d, rp);
                    println!("repetition {}: {} failure(s); concurrent {} ms, {} cache entries", i, o.failures.len(), r["conc_ms"], r["cache_entries"]);
                    for (w, _) in &o.failures {
                        println!("  {}", w);
                        bad += 1;
                    }
                }
            }
        }
        if bad > 0 {
            println!("VIOLATION property=C19 replay={}", p.display());
            std::process::exit(1);
        }
        println!("no failure in {} repetitions", repeat);
        return;
    }

    // ------------------------------------------------------------------ plan
    let thorough = a.tier == "thorough";
    let mut r = Rng::new(a.seed);
    let mut runs: Vec<Value> = vec![];
    let env_n = |k: &str, d: usize| std::env::var(k).ok().and_then(|s| s.parse().ok()).unwrap_or(d);
    // quick: 8 threads x 200 queries x 20 runs.  thorough: 16 threads, 200 runs: 40 of them with
    // 5000 queries per thread, 160 with 500 (an aggressive-discard query costs ~0.5 ms because every
    // consulted regex is recompiled; 200 x 16 x 5000 would take hours. C19_BIG_RUNS overrides.)
    let (threads, n_big, n_small, q_big, q_small, n_tiny) = if thorough {
        (16, env_n("C19_BIG_RUNS", 40), env_n("C19_SMALL_RUNS", 160), 5000, 500, 12000)
    } else {
        (8, env_n("C19_BIG_RUNS", 20), 0, 200, 200, 600)
    };
    let prefix = 48;
    for i in 0..(n_big + n_small) {
        let mode = if i % 5 == 1 || i % 5 == 3 { Mode::Pure } else { Mode::Rich };
        let q = if i < n_big { q_big } else { q_small };
        // same number of queries per run; every fourth run oversubscribes (2N threads x M/2), every
        // seventh uses few threads (N/4 x 4M)
        let (t, q) = if i % 4 == 2 { (threads * 2, q / 2) } else if i % 7 == 5 { (threads / 4, q * 4) } else { (threads, q) };
        runs.push(json!({"seed": r.next() >> 12, "mode": mode.name(), "threads": t, "queries": q, "prefix": prefix, "noise": true, "size": "big"}));
    }
    for _ in 0..n_tiny {
        let t = r.range(2, 4);
        let q = r.range(2, 5);
        runs.push(json!({"seed": r.next() >> 12, "mode": "pure", "threads": t, "queries": q, "prefix": t * q, "noise": false, "size": "tiny"}));
    }
    // policy runs: `full` = 50 phases x 4 queries, both policy fields walk through all 49 ordered
    // pairs of the 7 extreme durations; the others 6-24 random phases of 2-6 queries
    let (n_full, n_rand) = if thorough { (env_n("C19_POLICY_FULL", 40), env_n("C19_POLICY_RANDOM", 200)) } else { (env_n("C19_POLICY_FULL", 8), env_n("C19_POLICY_RANDOM", 24)) };
    for i in 0..(n_full + n_rand) {
        let full = i < n_full;
        let mode = if i % 2 == 0 { Mode::Pure } else { Mode::Rich };
        let t = r.pick(&[2usize, 3, 4, 8, 8, 16]);
        let (per, phases) = if full { (4, 50) } else { (r.range(2, 6), r.range(6, 24)) };
        runs.push(json!({"seed": r.next() >> 12, "mode": mode.name(), "threads": t, "queries": per * phases, "prefix": prefix, "noise": false,
            "size": "policy", "policy": {"full": full, "per": per}}));
    }
    let plan = json!({"stall_seconds": if thorough { 600 } else { 120 }, "op_seconds": if thorough { 300 } else { 90 }, "parallel": 8, "runs": runs});

    let mut cs = Cases::new(&a.out, "C19_Model");
    let mut sm = Summary::default();
    sm.rule = "runs = seeded rule lists (rich: 40-120 network rules (one run in six: plus a fusion group of 450-700 wildcard rules sharing one token, optimised into one regex set), 80% regex patterns, exceptions/important/csp/generichide/removeparam/redirect/tag/domain options + cosmetic rules, optimised or not; pure: 6-16 option-free regex rules block/csp/generichide) x N threads x M queries over a pool of 8-40 requests (network, network-subset, csp, url_cosmetic_resources), discard policy cleanup_interval=1ns discard_unused_time=0 (switched to 500us at random), lock-taking noise ops, and after the run a tag switch (use_tags([]) then use_tags([t1,t2]): tagged rules freed and allocated again) followed by a second shared phase of fresh threads whose answers are compared with one thread on a fresh engine; POLICY runs (no noise): the queries are cut into phases, phase k starts with set_regex_discard_policy of the k-th policy of a seeded script with cleanup_interval and discard_unused_time drawn from {0, 1 ns, 1 ms, 1 s, 1 h, u64::MAX/2 s, Duration::MAX} (full scripts: 50 phases, each field walks through all 49 ordered pairs = every shorter-after-longer, longer-after-shorter and same-twice; random scripts: 6-24 phases; a quarter of the phases set the policy twice in a row, a third once more between the setter's queries), walked sequentially on both builds (before the first and between later queries, through Engine (&mut) and Blocker (&self)) and on the shared engine where one thread in turn sets the policy while the others already run the phase's queries; every answer = sequential reference, no panic, no poisoning (other threads query afterwards), stuck calls reported by the watchdog with the operation; Coq cases only from pure runs (incl. pure policy runs): (a) big runs: first 48 tickets expanded to a random fine-grained schedule, (b) tiny runs (2-4 threads x 2-5 queries) replayed completely incl. final cache; non-trivial = at least two threads in the schedule and at least one regex rule consulted and at least one answer bit true".into();

    let t_sync = Instant::now();
    let results = match run_sync(&exe, &plan, &a.out, "main", Duration::from_secs(if thorough { 6000 } else { 900 })) {
        Ok(v) => v,
        Err((class, m)) => {
            match stuck_op(&m) {
                // the watchdog named the operation that does not return: replay that run
                Some((ri, op)) if ri < runs.len() => sm.failure(None, &format!("thread-safe run blocked [{}]: {}; {}", class, op, m.lines().last().unwrap_or("")), replay_of(&runs[ri])),
                _ => sm.failure(None, &format!("thread-safe run failed [{}]: {}", class, m), json!({"kind": class, "seed": a.seed, "tier": a.tier, "note": "whole plan; re-run ./check C19 with this seed"})),
            }
            cs.finish();
            sm.write(&a.out, &cs);
            return;
        }
    };
    let sync_s = t_sync.elapsed().as_secs_f64();
    if results.len() != runs.len() {
        sm.failure(None, &format!("c19_sync returned {} results for {} runs", results.len(), runs.len()), json!({"kind": "plan"}));
    }

    // ------------------------------------------------------------------ default build, same seeds (parallel over runs)
    let t_def = Instant::now();
    let next = AtomicUsize::new(0);
    let dsides: Mutex<Vec<(usize, DefaultSide)>> = Mutex::new(vec![]);
    std::thread::scope(|sc| {
        for _ in 0..8 {
            let (next, dsides, runs) = (&next, &dsides, &runs);
            sc.spawn(move || loop {
                let i = next.fetch_add(1, Ordering::SeqCst);
                if i >= runs.len() {
                    break;
                }
                let d = default_side(&spec_of(&runs[i]), policy_of(&runs[i]).as_ref());
                dsides.lock().unwrap().push((i, d));
            });
        }
    });
    let mut dsides = dsides.into_inner().unwrap();
    dsides.sort_by_key(|x| x.0);
    let def_s = t_def.elapsed().as_secs_f64();

    // ------------------------------------------------------------------ oracle + cases
    let mut tot_q = 0u64;
    let mut tot_noise = 0u64;
    let mut tot_compiled_seen = 0u64;
    let mut tot_usage = 0u64;
    let mut conc_ms = 0u64;
    let mut tot_switches = 0u64;
    let mut threads_hist: std::collections::BTreeMap<usize, u64> = Default::default();
    let mut located = false;
    let mut policy_pairs: BTreeSet<(usize, usize)> = BTreeSet::new();
    let mut trans_ci: BTreeSet<(usize, usize)> = BTreeSet::new();
    let mut trans_du: BTreeSet<(usize, usize)> = BTreeSet::new();
    let (mut tot_policy_seq, mut tot_policy_conc) = (0u64, 0u64);
    for (i, res) in results.iter().enumerate() {
        let run = &runs[i.min(runs.len() - 1)];
        let spec = spec_of(run);
        let d = &dsides[i].1;
        let replay = replay_of(run);
        let o = judge(res, d, &replay);
        if let Some(pl) = policy_of(run) {
            // generator statistics of the policy inputs
            cs.stat(if run["policy"]["full"] == true { "policy_run_full_script" } else { "policy_run_random_script" });
            for (k, ph) in pl.script.iter().enumerate() {
                cs.stat("policy_phase");
                if ph.twice {
                    cs.stat("policy_set_twice_in_a_row");
                }
                if ph.mid && pl.per > 1 {
                    cs.stat("policy_set_again_between_queries");
                }
                if ph.ci == 0 || ph.ci >= 5 || ph.du == 0 || ph.du >= 5 {
                    cs.stat("policy_with_0_or_huge_duration");
                }
                policy_pairs.insert((ph.ci, ph.du));
                if k > 0 {
                    let pv = &pl.script[k - 1];
                    for (name, a, b, seen) in [("cleanup_interval", pv.ci, ph.ci, &mut trans_ci), ("discard_unused_time", pv.du, ph.du, &mut trans_du)] {
                        seen.insert((a, b));
                        cs.stat(&format!("policy_{}_{}", name, if b < a { "shorter_after_longer" } else if b > a { "longer_after_shorter" } else { "same_again" }));
                    }
                }
            }
            tot_policy_seq += res["policy"]["sequential"]["set_calls"].as_u64().unwrap_or(0);
            tot_policy_conc += res["policy"]["concurrent_set_calls"].as_u64().unwrap_or(0);
        }
        sm.oracle_evaluations += (spec.threads * spec.queries) as u64 * 3; // default seq, sync seq, sync concurrent
        tot_q += (spec.threads * spec.queries) as u64;
        tot_noise += res["noise_ops"].as_u64().unwrap_or(0);
        tot_compiled_seen += res["inrun_compiled_seen"].as_u64().unwrap_or(0);
        tot_usage += res["cache_usage_total"].as_u64().unwrap_or(0);
        conc_ms += res["conc_ms"].as_u64().unwrap_or(0);
        tot_switches += res["ticket_switches"].as_u64().unwrap_or(0);
        *threads_hist.entry(spec.threads).or_insert(0u64) += 1;
        for (what, rp) in o.failures {
            let mut what = what;
            if what.starts_with("thread-safe and single-thread builds") && !located {
                located = true;
                what = format!("{}: {}", what, locate_cross_build(&exe, &spec, &a.out));
            }
            sm.failure(None, &what, rp);
        }
        cs.stat(&format!("run_{}_{}", spec.mode.name(), run["size"].as_str().unwrap_or("")));
        if res["optimize"].as_bool() == Some(true) {
            cs.stat("run_optimized_engine");
        }
        if spec.mode != Mode::Pure {
            continue;
        }
        // ---------------- Coq cases (pure runs)
        let tiny = run["size"] == "tiny";
        let tickets: Vec<usize> = res["tickets"].as_array().map(|v| v.iter().map(|x| x.as_u64().unwrap_or(0) as usize).collect()).unwrap_or_default();
        if tickets.is_empty() || tickets.iter().any(|t| *t >= spec.threads) {
            sm.failure(None, "ticket order missing or malformed", replay.clone());
            continue;
        }
        let mut n_done = vec![0usize; spec.threads];
        for t in &tickets {
            n_done[*t] += 1;
        }
        if tiny && n_done.iter().any(|n| *n != spec.queries) {
            sm.failure(None, "tiny run: ticket order does not cover every query exactly once", replay.clone());
            continue;
        }
        let w = gen_workload(&spec);
        let need: Vec<usize> = n_done.iter().map(|n| (*n + 1).min(spec.queries)).collect();
        let pm = observe_pure(&w, &need);
        let bits_of = |key: &str| -> Vec<Vec<bool>> {
            res[key].as_array().map(|v| v.iter().map(|t| t.as_array().map(|b| b.iter().map(|x| x.as_bool().unwrap_or(false)).collect()).unwrap_or_default()).collect()).unwrap_or_default()
        };
        let conc_bits = bits_of("conc_bits");
        let seq_bits = bits_of("seq_bits");
        // three-way agreement of the one-bit abstraction (default build / sync seq / sync conc)
        let mut impl_bits: Vec<Vec<bool>> = vec![];
        for ti in 0..spec.threads {
            let n = n_done[ti];
            let cb: Vec<bool> = conc_bits.get(ti).map(|b| b.iter().take(n).cloned().collect()).unwrap_or_default();
            for qi in 0..n {
                let dbit = pm.q[&(ti, qi)].3;
                if cb.get(qi) != Some(&dbit) || seq_bits.get(ti).and_then(|b| b.get(qi)) != Some(&dbit) {
                    sm.failure(None, &format!("answer bit of thread {} query {} differs between builds/schedules", ti, qi), replay.clone());
                }
            }
            impl_bits.push(cb);
        }
        for _variant in 0..(if tiny { 1 } else { 6 }) {
        let (sched, phase_sched) = fine_schedule(&tickets, spec.threads, &mut r, tiny);
        let qss: Vec<Vec<String>> = (0..spec.threads)
            .map(|ti| (0..need[ti]).map(|qi| coq_query(&pm.q[&(ti, qi)], r.chance(3, 4))).collect())
            .collect();
        let qss_s = clist(&qss, |v| clist(v, |s| s.clone()));
        let mt_s = clist(&pm.mt.iter().cloned().collect::<Vec<_>>(), |p| format!("({}, {})", cn(p.0), cn(p.1)));
        let cache: Vec<(i64, bool, bool)> = res["cache"].as_array().map(|v| v.iter().map(|e| (e[0].as_i64().unwrap_or(-1), e[1].as_bool().unwrap_or(false), e[2].as_bool().unwrap_or(false))).collect()).unwrap_or_default();
        let dumped = clist(&cache, |e| {
            let k = if e.0 < 0 { 0 } else { e.0 as usize + 1 };
            if e.1 {
                format!("({}, Compiled {})", cn(k), cn(if e.2 { 1000 + k } else { 999999 }))
            } else {
                format!("({}, Discarded)", cn(k))
            }
        });
        let consulted: usize = pm.q.values().map(|m| m.2.len()).sum();
        let nontrivial = tickets.iter().collect::<BTreeSet<_>>().len() >= 2 && consulted > 0 && impl_bits.iter().flatten().any(|b| *b);
        let desc = json!({"seed": spec.seed, "threads": spec.threads, "queries": spec.queries, "rules": w.rules, "tickets": tickets,
            "schedule_events": sched.len(), "phase_schedule_events": phase_sched.len(), "impl_answer_bits": impl_bits, "cache_dump": res["cache"], "kind": if tiny { "complete" } else { "prefix" }});
        let expr = if tiny {
            let post: Vec<String> = (0..spec.threads).flat_map(|ti| (0..POST_QUERIES.min(spec.queries)).map(move |qi| (ti, qi))).map(|k| coq_query(&pm.q[&k], false)).collect();
            let dump2 = clist(&cache, |e| format!("({}, {})", cn(if e.0 < 0 { 0 } else { e.0 as usize + 1 }), cbool(e.1)));
            format!(
                "replay_final {} {} {} {} {} {} {} && cache_okb {} {} && freplay_complete {} {} {} {} {}",
                pm.tbl, mt_s, qss_s, coq_sched(&sched), coq_bits(&impl_bits), clist(&post, |s| s.clone()), dump2, pm.tbl, dumped,
                pm.tbl, mt_s, qss_s, coq_sched(&phase_sched), coq_bits(&impl_bits)
            )
        } else {
            format!("replay_ok {} {} {} {} {} && cache_okb {} {}", pm.tbl, mt_s, qss_s, coq_sched(&sched), coq_bits(&impl_bits), pm.tbl, dumped)
        };
        cs.stat(if tiny { "case_complete_replay" } else { "case_prefix_replay" });
        if impl_bits.iter().flatten().any(|b| *b) {
            cs.stat("case_with_a_match");
        }
        cs.case(expr, desc, nontrivial);
        }
    }
    sm.extra.insert("policy_set_calls_sequential_per_build".into(), json!(tot_policy_seq));
    sm.extra.insert("policy_set_calls_while_other_threads_query".into(), json!(tot_policy_conc));
    sm.extra.insert("policy_distinct_pairs_cleanup_x_discard_of_49".into(), json!(policy_pairs.len()));
    sm.extra.insert("policy_distinct_ordered_changes_cleanup_interval_of_49".into(), json!(trans_ci.len()));
    sm.extra.insert("policy_distinct_ordered_changes_discard_unused_time_of_49".into(), json!(trans_du.len()));
    for _ in 0..tot_policy_conc {
        cs.stat("policy_set_call_while_other_threads_query");
    }
    for _ in 0..tot_policy_seq {
        cs.stat("policy_set_call_sequential");
    }
    sm.extra.insert("queries_per_configuration".into(), json!(tot_q));
    sm.extra.insert("runs".into(), json!(results.len()));
    sm.extra.insert("threads".into(), json!(threads));
    sm.extra.insert("runs_by_thread_count".into(), json!(threads_hist.iter().map(|(k, v)| (k.to_string(), *v)).collect::<std::collections::BTreeMap<String, u64>>()));
    sm.extra.insert("ticket_holder_switches".into(), json!(tot_switches));
    sm.extra.insert("lock_taking_noise_ops".into(), json!(tot_noise));
    sm.extra.insert("compiled_entries_checked_in_run".into(), json!(tot_compiled_seen));
    sm.extra.insert("regex_evaluations_concurrent".into(), json!(tot_usage));
    sm.extra.insert("concurrent_phase_ms_total".into(), json!(conc_ms));
    sm.extra.insert("sync_binary_seconds".into(), json!(sync_s));
    sm.extra.insert("default_build_seconds".into(), json!(def_s));
    sm.extra.insert("default_build_ms_sum".into(), json!(dsides.iter().map(|d| d.1.ms as u64).sum::<u64>()));
    sm.extra.insert("thread_safe_features".into(), json!("--no-default-features --features embedded-domain-resolver,full-regex-handling,regex-debug-info"));
    cs.finish();
    sm.write(&a.out, &cs);
}
