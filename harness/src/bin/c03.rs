//! C03 — option semantics: a rule applies to a request only if every option on it is satisfied
//! (resource type, party, initiator domains, match-case, scheme), and applies whenever they all are
//! and the pattern matches; unsupported schemes are never matched.
//!
//! Correspondence (model = coq/theories/C03_Model.v):
//!   parse   NetworkFilter::parse(line)  -> mask.bits() (minus the pattern-kind bits), opt_domains,
//!           opt_not_domains, the two unions, or the error variant      vs  parse_rule_options
//!   check   Request::preparsed(..) fields + filters::verif::check_options(parsed fields, request)
//!                                                                       vs  from_detailed_parameters,
//!                                                                           rule_check_options
//!   synth   check_options on arbitrary masks / sorted hash arrays / unions (consistent, absent or
//!           wrong)                                                      vs  check_options
//! Oracle (independent of Coq): a direct Rust statement of the option semantics (`ref_*` below,
//! written from the ABP/uBO documentation tables) against single-rule `NetworkFilter::matches` with
//! patterns that trivially match the request URL, and against `Engine::check_network_request` for
//! requests with unsupported schemes.
use adblock::filters::network::{NetworkFilter, NetworkMatchable};
use adblock::regex_manager::RegexManager;
use adblock::request::Request;
use adblock::utils::fast_hash;
use adblock::Engine;
use implrun::*;
use serde_json::{json, Value};
use std::collections::BTreeMap;

// ------------------------------------------------------------------------------------------------
// pattern family: shapes known by construction
// ------------------------------------------------------------------------------------------------
#[derive(Clone, Copy, PartialEq, Debug)]
enum Scheme {
    None,
    Ws,
    Http,
    Https,
    HttpStar,
}
#[derive(Clone, Debug)]
struct Shape {
    exception: bool,
    hostname_anchor: bool,
    right_anchor: bool,
    end_url_anchor: bool,
    complete_regex: bool,
    scheme: Scheme,
}
impl Shape {
    fn coq(&self) -> String {
        format!(
            "(mkShape {} {} {} {} {} {})",
            cbool(self.exception),
            cbool(self.hostname_anchor),
            cbool(self.right_anchor),
            cbool(self.end_url_anchor),
            cbool(self.complete_regex),
            match self.scheme {
                Scheme::None => "SP_none",
                Scheme::Ws => "SP_ws",
                Scheme::Http => "SP_http",
                Scheme::Https => "SP_https",
                Scheme::HttpStar => "SP_httpstar",
            }
        )
    }
}

const PATTERN_KINDS: &[&str] = &[
    "star", "host_caret", "host_caret_pipe", "host", "host_pipe", "http", "https", "ws", "httpstar", "plain", "regex",
    "host_path",
];
/// kinds whose pattern matches every URL built by `url_for_kind` (used by the oracle)
const ORACLE_KINDS: &[&str] = &["star", "host_caret", "host_caret_pipe", "host", "host_pipe", "http", "https", "ws", "httpstar", "plain", "regex", "host_path"];

fn pattern_of(kind: &str, host: &str) -> (String, Shape) {
    let mut sh = Shape { exception: false, hostname_anchor: false, right_anchor: false, end_url_anchor: false, complete_regex: false, scheme: Scheme::None };
    let p = match kind {
        "star" => "*".to_string(),
        "host_caret" => {
            sh.hostname_anchor = true;
            sh.right_anchor = true;
            format!("||{}^", host)
        }
        "host_caret_pipe" => {
            sh.hostname_anchor = true;
            sh.right_anchor = true;
            sh.end_url_anchor = true;
            format!("||{}^|", host)
        }
        "host" => {
            sh.hostname_anchor = true;
            format!("||{}", host)
        }
        "host_pipe" => {
            sh.hostname_anchor = true;
            sh.right_anchor = true;
            sh.end_url_anchor = true;
            format!("||{}|", host)
        }
        "host_path" => {
            sh.hostname_anchor = true;
            format!("||{}/ads", host)
        }
        "http" => {
            sh.scheme = Scheme::Http;
            "|http://".to_string()
        }
        "https" => {
            sh.scheme = Scheme::Https;
            "|https://".to_string()
        }
        "ws" => {
            sh.scheme = Scheme::Ws;
            "|ws://".to_string()
        }
        "httpstar" => {
            sh.scheme = Scheme::HttpStar;
            "|http*://".to_string()
        }
        "plain" => "ads".to_string(),
        "regex" => {
            sh.complete_regex = true;
            "/ads[0-9]+/".to_string()
        }
        _ => unreachable!(),
    };
    (p, sh)
}

/// A URL that the pattern of `kind` (built on `host`) matches, for any scheme.
fn url_for_kind(kind: &str, scheme: &str, host: &str) -> String {
    match kind {
        // the URL must end where the pattern does
        "host_caret_pipe" => format!("{}://{}/", scheme, host),
        "host_pipe" => format!("{}://{}", scheme, host),
        _ => format!("{}://{}/ads1", scheme, host),
    }
}

// ------------------------------------------------------------------------------------------------
// generators
// ------------------------------------------------------------------------------------------------
const TYPE_NAMES: &[&str] = &[
    "image", "media", "object", "object-subrequest", "other", "ping", "beacon", "script", "stylesheet", "css",
    "subdocument", "frame", "xmlhttprequest", "xhr", "websocket", "font", "document", "doc",
];
const PARTY_NAMES: &[&str] = &["third-party", "3p", "first-party", "1p"];
const FLAG_NAMES: &[&str] = &["important", "badfilter", "match-case", "generichide", "ghide"];
const DOMS: &[&str] = &["a.com", "b.com", "sub.a.com", "example.com", "foo.com", "x.net", "com", "co.uk", "a.co.uk", "www.example.com", "www.a.com", "www.www.foo.com"];
const SRC_HOSTS: &[&str] = &[
    "a.com", "sub.a.com", "x.sub.a.com", "b.com", "xa.com", "a.com.evil.org", "com", "a.com.", ".a.com", "www.example.com", "www.a.com", "cdn.a.com", "shop.www.a.com", "www.foo.com",
    "example.com", "foo.com", "x.net", "y.x.net", "a.co.uk", "b.a.co.uk", "localhost", "",
    // deep initiators: a listed domain covers every depth of subdomain
    "p.q.r.s.t.a.com", "k.l.m.n.sub.a.com", "v.w.x.y.z.x.net", "a1.b2.c3.d4.e5.f6.g7.example.com", "n1.n2.n3.n4.n5.a.co.uk", "a.b.c.d.foo.com",
];
const RAW_TYPES: &[&str] = &[
    "beacon", "csp_report", "document", "main_frame", "font", "image", "imageset", "media", "object", "object_subrequest",
    "ping", "script", "stylesheet", "sub_frame", "subdocument", "websocket", "xhr", "xmlhttprequest", "other", "speculative",
    "web_manifest", "xbl", "xml_dtd", "xslt", "fetch", "", "IMAGE", "popup",
];
const SCHEMES: &[&str] = &["http", "https", "ws", "wss"];
const BAD_SCHEMES: &[&str] = &["ftp", "data", "chrome-extension", "file", "blob", "about", "htt", "httpss", "wsss", "HTTP", "javascript", "mailto", "data", "about"];

fn domain_value(r: &mut Rng) -> String {
    let n = r.range(1, 4);
    let mut v = vec![];
    for _ in 0..n {
        let d = r.pick(DOMS);
        v.push(match r.below(12) {
            0 | 1 | 2 => format!("~{}", d),
            3 => format!("/{}/", d),
            4 => format!("~~{}", d),
            5 => String::new(),
            _ => d.to_string(),
        });
    }
    if r.chance(1, 6) {
        v.push(v[0].clone());
    }
    v.join("|")
}

fn gen_option(r: &mut Rng) -> String {
    match r.below(40) {
        0..=15 => {
            let t = r.pick(TYPE_NAMES);
            if r.chance(1, 3) {
                format!("~{}", t)
            } else {
                t.to_string()
            }
        }
        16..=20 => {
            let t = r.pick(PARTY_NAMES);
            if r.chance(1, 3) {
                format!("~{}", t)
            } else {
                t.to_string()
            }
        }
        21..=27 => format!("{}={}", r.pick(&["domain", "from", "domain", "~domain"]), domain_value(r)),
        28 | 29 => {
            let t = r.pick(FLAG_NAMES);
            if r.chance(1, 8) {
                format!("~{}", t)
            } else {
                t.to_string()
            }
        }
        30 => format!("tag={}", r.pick(&["t1", "t2", ""])),
        31 => format!("redirect={}", r.pick(&["noop.js", "1x1.gif", "", "noop.js:10"])),
        32 => format!("redirect-rule={}", r.pick(&["noop.js", ""])),
        33 => r.pick(&["csp", "csp=script-src 'none'", "~csp=x", "csp="]).to_string(),
        34 | 35 => format!("removeparam={}", r.pick(&["utm", "utm_source", "a-b", "", "/re/", "a b", "é"])),
        36 => r.pick(&["", "~", "foo", "script=x", "~~script", "popup", "domain", "Image", "3P", "~tag=x", "~redirect=x", "~removeparam=x", "~redirect-rule=x"]).to_string(),
        _ => r.pick(&["important", "badfilter"]).to_string(),
    }
}

fn gen_options(r: &mut Rng) -> Option<String> {
    if r.chance(1, 12) {
        return None;
    }
    let n = match r.below(10) {
        0..=3 => 1,
        4..=6 => 2,
        7 | 8 => 3,
        _ => r.range(4, 6),
    };
    let v: Vec<String> = (0..n).map(|_| gen_option(r)).collect();
    Some(v.join(","))
}

/// Mostly-valid option text for the oracle: at most one modifier, no junk.
fn gen_valid_options(r: &mut Rng) -> Option<String> {
    if r.chance(1, 10) {
        return None;
    }
    let mut v: Vec<String> = vec![];
    let nt = r.pick(&[0usize, 0, 1, 1, 1, 2, 3]);
    let negate_all = r.chance(1, 3);
    for _ in 0..nt {
        let t = r.pick(TYPE_NAMES);
        let neg = if r.chance(1, 6) { !negate_all } else { negate_all };
        v.push(if neg && t != "document" && t != "doc" { format!("~{}", t) } else { t.to_string() });
    }
    if r.chance(1, 3) {
        let t = r.pick(PARTY_NAMES);
        v.push(if r.chance(1, 3) { format!("~{}", t) } else { t.to_string() });
    }
    if r.chance(1, 2) {
        v.push(format!("domain={}", domain_value(r)));
    }
    if r.chance(1, 12) {
        v.push(format!("from={}", domain_value(r)));
    }
    if r.chance(1, 10) {
        v.push(r.pick(&["important", "badfilter", "tag=t1"]).to_string());
    }
    if r.chance(1, 6) {
        v.push(r.pick(&["removeparam=utm", "csp=script-src 'none'", "redirect=noop.js", "redirect-rule=noop.js", "csp"]).to_string());
    }
    if v.is_empty() {
        return Some("important".to_string());
    }
    // shuffle a little
    if v.len() > 1 && r.chance(1, 2) {
        let i = r.below(v.len());
        let j = r.below(v.len());
        v.swap(i, j);
    }
    Some(v.join(","))
}

fn rule_line(exception: bool, pattern: &str, opts: &Option<String>) -> String {
    let mut s = String::new();
    if exception {
        s.push_str("@@");
    }
    s.push_str(pattern);
    if let Some(o) = opts {
        s.push('$');
        s.push_str(o);
    }
    s
}

// ------------------------------------------------------------------------------------------------
// Coq printing helpers
// ------------------------------------------------------------------------------------------------
fn coq_olist(v: &Option<Vec<u64>>) -> String {
    copt(v, |l| clist(l, |x| cn(x)))
}
fn coq_on(v: &Option<u64>) -> String {
    copt(v, |x| cn(x))
}
/// every string the model may hash for this option text / source host, with the crate's hash
fn hash_table(opts: Option<&str>, source_host: &str) -> String {
    let mut t: BTreeMap<String, u64> = BTreeMap::new();
    let mut add = |s: &str| {
        t.insert(s.to_string(), fast_hash(s));
    };
    if let Some(o) = opts {
        for opt in o.split(',') {
            let val = opt.splitn(2, '=').nth(1).unwrap_or("");
            for piece in val.split('|') {
                add(piece);
                if let Some(p) = piece.strip_prefix('~') {
                    add(p);
                }
            }
        }
    }
    for (i, _) in source_host.char_indices() {
        add(&source_host[i..]);
    }
    add("");
    let items: Vec<String> = t.iter().map(|(k, v)| format!("({}, {})", hxs(k), cn(v))).collect();
    format!("[{}]", items.join("; "))
}
fn rt_name(t: &adblock::request::RequestType) -> String {
    format!("RT_{:?}", t)
}
fn coq_request(q: &Request) -> String {
    format!(
        "(mkReq {} {} {} {} {} {})",
        rt_name(&q.request_type),
        cbool(q.is_http),
        cbool(q.is_https),
        cbool(q.is_supported),
        cbool(q.is_third_party),
        coq_olist(&q.source_hostname_hashes)
    )
}

fn coq_parsed(res: &Result<NetworkFilter, String>) -> String {
    match res {
        Ok(f) => format!(
            // the model leaves the pattern-kind bits out; they are stripped with the model's own
            // PATTERN_BITS (built from the generated mask constants)
            "(POk (mkParsed (N.ldiff {} PATTERN_BITS) {} {} {} {}))",
            cn(f.mask.bits()),
            coq_olist(&f.opt_domains),
            coq_olist(&f.opt_not_domains),
            coq_on(&f.opt_domains_union),
            coq_on(&f.opt_not_domains_union)
        ),
        Err(e) => format!("(PErr \"{}\")", e),
    }
}

fn parse_rule(line: &str) -> Result<NetworkFilter, String> {
    NetworkFilter::parse(line, true, Default::default()).map_err(|e| {
        let d = format!("{:?}", e);
        d.split('(').next().unwrap_or("").to_string()
    })
}

fn schema_of(url: &str) -> &str {
    match url.find(':') {
        Some(i) => &url[..i],
        None => "",
    }
}

// ------------------------------------------------------------------------------------------------
// Implementation-side oracle: an independent statement of the option semantics
// ------------------------------------------------------------------------------------------------
#[derive(Clone, Copy, PartialEq, Eq, Debug)]
enum Class {
    Image,
    Media,
    Object,
    Other,
    Ping,
    Script,
    Stylesheet,
    Subdocument,
    Websocket,
    Xhr,
    Font,
    Document,
}
/// ABP / uBO option names for resource types
fn class_of_option(name: &str) -> Option<Class> {
    Some(match name {
        "image" => Class::Image,
        "media" => Class::Media,
        "object" | "object-subrequest" => Class::Object,
        "other" => Class::Other,
        "ping" | "beacon" => Class::Ping,
        "script" => Class::Script,
        "stylesheet" | "css" => Class::Stylesheet,
        "subdocument" | "frame" => Class::Subdocument,
        "xmlhttprequest" | "xhr" => Class::Xhr,
        "websocket" => Class::Websocket,
        "font" => Class::Font,
        "document" | "doc" => Class::Document,
        _ => return None,
    })
}
/// webRequest resource type names; `None` = never filtered (csp reports)
fn class_of_request(raw: &str) -> Option<Class> {
    Some(match raw {
        "csp_report" => return None,
        "beacon" | "ping" => Class::Ping,
        "document" | "main_frame" => Class::Document,
        "font" => Class::Font,
        "image" | "imageset" => Class::Image,
        "media" => Class::Media,
        "object" | "object_subrequest" => Class::Object,
        "script" => Class::Script,
        "stylesheet" => Class::Stylesheet,
        "sub_frame" | "subdocument" => Class::Subdocument,
        "websocket" => Class::Websocket,
        "xhr" | "xmlhttprequest" => Class::Xhr,
        _ => Class::Other,
    })
}

#[derive(Default, Debug)]
struct RefRule {
    pos: Vec<Class>,
    neg: Vec<Class>,
    third_only: bool,
    first_only: bool,
    inc: Option<Vec<String>>,
    exc: Option<Vec<String>>,
    bad: bool,
    csp: bool,
    removeparam: bool,
    ghide: bool,
    matchcase: bool,
    modifiers: usize,
}

fn ref_parse(opts: Option<&str>, sh: &Shape) -> Result<RefRule, String> {
    let mut r = RefRule::default();
    if let Some(text) = opts {
        for o in text.split(',') {
            let negated = o.starts_with('~');
            let body = o.trim_start_matches('~');
            let (name, value) = match body.find('=') {
                Some(i) => (&body[..i], &body[i + 1..]),
                None => (body, ""),
            };
            if let Some(c) = class_of_option(name) {
                if c == Class::Document && negated {
                    return Err("negated document".into());
                }
                if negated {
                    r.neg.push(c)
                } else {
                    r.pos.push(c)
                }
                continue;
            }
            match name {
                "third-party" | "3p" => {
                    if negated {
                        r.first_only = true
                    } else {
                        r.third_only = true
                    }
                }
                "first-party" | "1p" => {
                    if negated {
                        r.third_only = true
                    } else {
                        r.first_only = true
                    }
                }
                "domain" | "from" => {
                    let mut inc = vec![];
                    let mut exc = vec![];
                    for d in value.split('|') {
                        let (on, d) = match d.strip_prefix('~') {
                            Some(x) => (false, x),
                            None => (true, d),
                        };
                        if d.starts_with('/') && d.ends_with('/') {
                            continue; // regex entries are not supported and dropped
                        }
                        if on {
                            inc.push(d.to_string())
                        } else {
                            exc.push(d.to_string())
                        }
                    }
                    if inc.is_empty() && exc.is_empty() {
                        return Err("no supported domains".into());
                    }
                    // a later domain= option replaces the lists it has entries for
                    if !inc.is_empty() {
                        r.inc = Some(inc)
                    }
                    if !exc.is_empty() {
                        r.exc = Some(exc)
                    }
                }
                "csp" => {
                    r.csp = true;
                    r.modifiers += 1
                }
                "badfilter" | "important" | "match-case" | "tag" | "redirect" | "redirect-rule" | "removeparam" | "generichide" | "ghide" => {
                    if negated {
                        return Err(format!("negated {}", name));
                    }
                    match name {
                        "badfilter" => r.bad = true,
                        "match-case" => r.matchcase = true,
                        "generichide" | "ghide" => r.ghide = true,
                        "redirect" | "redirect-rule" => {
                            if value.is_empty() {
                                return Err("empty redirect".into());
                            }
                            r.modifiers += 1
                        }
                        "removeparam" => {
                            if value.is_empty() || !value.chars().all(|c| c.is_ascii_alphanumeric() || c == '_' || c == '-') {
                                return Err("unsupported removeparam".into());
                            }
                            r.removeparam = true;
                            r.modifiers += 1
                        }
                        _ => {}
                    }
                }
                _ => return Err("unknown option".into()),
            }
        }
    }
    if r.csp && (!r.pos.is_empty() || !r.neg.is_empty()) {
        return Err("csp with type".into());
    }
    if r.modifiers > 1 {
        return Err("several modifiers".into());
    }
    if r.matchcase && !sh.complete_regex {
        return Err("match-case without regex".into());
    }
    if r.ghide && !sh.exception {
        return Err("generichide on a blocking rule".into());
    }
    if r.removeparam && sh.exception {
        return Err("removeparam exception".into());
    }
    Ok(r)
}

const NETWORK: &[Class] = &[
    Class::Image, Class::Media, Class::Object, Class::Other, Class::Ping, Class::Script, Class::Stylesheet, Class::Subdocument,
    Class::Websocket, Class::Xhr, Class::Font,
];

fn ref_allowed(r: &RefRule, sh: &Shape, c: Class) -> bool {
    if r.neg.contains(&c) {
        return false; // exclusions win
    }
    if r.pos.contains(&c) {
        return true;
    }
    if r.csp && c == Class::Document {
        return true;
    }
    if sh.scheme == Scheme::Ws && c == Class::Websocket {
        return true;
    }
    let network = NETWORK.contains(&c);
    if !r.removeparam && !r.neg.is_empty() && network {
        return true;
    }
    if r.pos.is_empty() {
        if r.removeparam {
            if matches!(c, Class::Document | Class::Subdocument | Class::Xhr) {
                return true;
            }
        } else if network {
            return true;
        }
        if r.neg.is_empty() && !r.removeparam && sh.hostname_anchor && sh.right_anchor && !sh.end_url_anchor {
            return true;
        }
    }
    false
}

fn covers(d: &str, host: &str) -> bool {
    d == host || (!d.is_empty() && host.ends_with(&format!(".{}", d)))
}

struct ReqInfo<'a> {
    raw_type: &'a str,
    scheme: &'a str,
    third: bool,
    source_host: &'a str,
}

/// `Some(true/false)`: the rule applies / does not apply as far as options go. Scheme per L0.
fn ref_applies(r: &RefRule, sh: &Shape, q: &ReqInfo) -> bool {
    if r.bad {
        return false;
    }
    let ws = q.scheme == "ws" || q.scheme == "wss";
    let class = if ws { Some(Class::Websocket) } else { class_of_request(q.raw_type) };
    let type_ok = match class {
        None => false,
        Some(c) => ref_allowed(r, sh, c) || (c == Class::Document && sh.exception),
    };
    let party_ok = if q.third { !r.first_only } else { !r.third_only };
    let scheme_ok = match sh.scheme {
        Scheme::None => true,
        Scheme::Http => q.scheme == "http",
        Scheme::Https => q.scheme == "https",
        Scheme::HttpStar => q.scheme == "http" || q.scheme == "https",
        Scheme::Ws => ws,
    };
    let dom_ok = if q.source_host.is_empty() {
        true // no source: initiator-domain options are not evaluated (by design of check_options; C01 F2)
    } else {
        r.inc.as_ref().map_or(true, |l| l.iter().any(|d| covers(d, q.source_host)))
            && r.exc.as_ref().map_or(true, |l| !l.iter().any(|d| covers(d, q.source_host)))
    };
    type_ok && party_ok && scheme_ok && dom_ok
}

/// the known finding F3: a rule restricted to http/https by its pattern, a websocket request
fn f3_class(sh: &Shape, scheme: &str) -> bool {
    matches!(sh.scheme, Scheme::Http | Scheme::Https | Scheme::HttpStar) && (scheme == "ws" || scheme == "wss")
}

/// One oracle case (also the replay entry point). Returns (class, message) on failure.
fn oracle_case(d: &Value, verbose: bool) -> Option<(Option<&'static str>, String)> {
    let kind = d["pattern_kind"].as_str().unwrap();
    let host = d["host"].as_str().unwrap();
    let exception = d["exception"].as_bool().unwrap();
    let opts: Option<String> = d["options"].as_str().map(|s| s.to_string());
    let scheme = d["scheme"].as_str().unwrap();
    let raw_type = d["type"].as_str().unwrap();
    let source_host = d["source_host"].as_str().unwrap();
    let mode_new = d["mode"].as_str().unwrap() == "new";
    let (pat, mut sh) = pattern_of(kind, host);
    sh.exception = exception;
    let line = rule_line(exception, &pat, &opts);
    let url = url_for_kind(kind, scheme, host);
    let req = if mode_new {
        let src = if source_host.is_empty() { String::new() } else { format!("https://{}/page", source_host) };
        match Request::new(&url, &src, raw_type) {
            Ok(q) => q,
            Err(e) => return Some((None, format!("Request::new({}, {}) failed: {:?}", url, src, e))),
        }
    } else {
        Request::preparsed(&url, host, source_host, raw_type, d["third"].as_bool().unwrap())
    };
    let third = req.is_third_party;
    let want = ref_parse(opts.as_deref(), &sh);
    let got = parse_rule(&line);
    if verbose {
        println!("rule {:?}  url {}  source_host {:?}  type {:?}  third {}", line, url, source_host, raw_type, third);
        println!("reference rule: {:?}", want);
        println!("crate parse: {:?}", got.as_ref().map(|f| f.mask.bits()));
    }
    match (&want, &got) {
        (Err(_), Err(_)) => None,
        (Ok(_), Err(e)) => Some((None, format!("rule {:?} is valid by the specification but the crate rejects it ({})", line, e))),
        (Err(w), Ok(_)) => Some((None, format!("rule {:?} is invalid by the specification ({}) but the crate accepts it", line, w))),
        (Ok(rr), Ok(f)) => {
            let q = ReqInfo { raw_type, scheme, third, source_host };
            let expect = ref_applies(rr, &sh, &q);
            let mut rm = RegexManager::default();
            let m = f.matches(&req, &mut rm);
            if verbose {
                println!("specification: applies = {}   crate: matches = {}", expect, m);
            }
            if m != expect {
                let class = if f3_class(&sh, scheme) && m && !expect { Some("F3_scheme_ws") } else { None };
                Some((class, format!("rule {:?} on {} (type {:?}, third-party {}, source host {:?}): crate matches = {}, option semantics say {}", line, url, raw_type, third, source_host, m, expect)))
            } else {
                // the same rule inside an engine, fresh and after a serialize / deserialize round trip
                // (plain blocking and exception rules only: the other categories have their own verdict fields)
                use adblock::filters::network::NetworkFilterMaskHelper;
                let plain = !(f.is_csp() || f.is_redirect() || f.is_removeparam() || f.is_generic_hide() || f.is_important() || f.is_badfilter())
                    && adblock::verif_hooks::filter_tag(f).is_none();
                // (the list loader drops some lines the rule parser accepts, e.g. the 1-character rule `*`)
                if plain && implrun::net::parse_net(&line).is_some() && req.is_supported && !(f3_class(&sh, scheme)) && !(source_host.is_empty() && f.opt_domains.is_some()) {
                    let fresh = adblock::Engine::from_rules_parametrised([line.as_str()], Default::default(), true, false);
                    let mut loaded = adblock::Engine::default();
                    if let Ok(bytes) = fresh.serialize_raw() {
                        if loaded.deserialize(&bytes).is_ok() {
                            for (name, e) in [("fresh engine", &fresh), ("deserialized engine", &loaded)] {
                                let res = e.check_network_request_subset(&req, false, true);
                                let took_part = if f.is_exception() { res.exception.is_some() } else { res.filter.is_some() };
                                if took_part != expect {
                                    return Some((None, format!("{}: rule {:?} on {} (type {:?}, source host {:?}) takes part = {}, option semantics say {}", name, line, url, raw_type, source_host, took_part, expect)));
                                }
                            }
                        }
                    }
                }
                None
            }
        }
    }
}

/// Unsupported scheme: the engine returns the default result whatever the rules are.
fn unsupported_case(d: &Value, verbose: bool) -> Option<(Option<&'static str>, String)> {
    let url = d["url"].as_str().unwrap();
    let raw_type = d["type"].as_str().unwrap();
    let rules: Vec<String> = d["rules"].as_array().unwrap().iter().map(|x| x.as_str().unwrap().to_string()).collect();
    let req = if d["mode"].as_str().unwrap() == "new" {
        match Request::new(url, d["source"].as_str().unwrap(), raw_type) {
            Ok(q) => q,
            Err(_) => return None, // the URL is not accepted at all: nothing is matched
        }
    } else {
        Request::preparsed(url, d["host"].as_str().unwrap(), "a.com", raw_type, true)
    };
    // Request::new goes through the URL parser, which lower-cases the scheme; preparsed compares as is
    let scheme_s = if d["mode"].as_str().unwrap() == "new" { schema_of(url).to_ascii_lowercase() } else { schema_of(url).to_string() };
    let scheme = scheme_s.as_str();
    let supported = matches!(scheme, "" | "http" | "https" | "ws" | "wss");
    let engine = Engine::from_rules(rules.iter(), Default::default());
    let res = engine.check_network_request(&req);
    let is_default = !res.matched && !res.important && res.redirect.is_none() && res.rewritten_url.is_none() && res.exception.is_none() && res.filter.is_none();
    if verbose {
        println!("url {} scheme {:?} supported(spec)={} is_supported(crate)={} result default={}", url, scheme, supported, req.is_supported, is_default);
    }
    if req.is_supported != supported {
        return Some((None, format!("is_supported = {} for scheme {:?}", req.is_supported, scheme)));
    }
    if !supported && !is_default {
        return Some((None, format!("request {} with an unsupported scheme was matched: {:?}", url, res)));
    }
    None
}

// ------------------------------------------------------------------------------------------------
fn main() {
    let a = args();
    if let Some(p) = &a.replay {
        let v: Value = serde_json::from_str(&std::fs::read_to_string(p).unwrap()).unwrap();
        let rp = &v["replay"];
        let r = match rp["kind"].as_str().unwrap_or("match") {
            "unsupported" => unsupported_case(rp, true),
            _ => oracle_case(rp, true),
        };
        if let Some((class, what)) = r {
            println!("{}", what);
            if let Some(c) = class {
                println!("(known finding class {})", c);
            }
            println!("VIOLATION property=C03 replay={}", p.display());
            std::process::exit(1);
        }
        println!("holds on this input");
        return;
    }
    let mut r = Rng::new(a.seed);
    let mut cs = Cases::new(&a.out, "Generated C03_Model");
    cs.shard = 150;
    let mut sm = Summary::default();
    sm.rule = "parse: 12 pattern kinds (shape known by construction) x exception x random option lists over every option name/alias with negations, domain lists (negated, regex, empty, duplicate entries), modifiers and junk; check: parsed rule x Request::preparsed over 28 raw type strings x 4 schemes (+ no scheme) x party x 18 source hosts (subdomains, look-alikes, trailing dot, none); synth: arbitrary masks, sorted hash arrays, consistent/absent/wrong unions. Non-trivial = the rule parsed and carries a type, party or domain option (parse/check), or the arrays intersect the source hashes (synth)".into();

    // ---------------------------------------------------------------- C: parse + check_options
    let n = 700 * a.scale;
    for _ in 0..n {
        let kind = r.pick(PATTERN_KINDS);
        let host = r.pick(gen::HOSTS);
        let (pat, mut sh) = pattern_of(kind, host);
        sh.exception = r.chance(1, 4);
        let opts = if kind == "regex" && r.chance(1, 2) {
            Some(match gen_options(&mut r) {
                Some(o) => format!("match-case,{}", o),
                None => "match-case".into(),
            })
        } else {
            gen_options(&mut r)
        };
        let line = rule_line(sh.exception, &pat, &opts);
        let got = parse_rule(&line);
        cs.stat(match &got {
            Ok(_) => "parse_ok",
            Err(_) => "parse_err",
        });
        if let Err(e) = &got {
            cs.stat(&format!("err_{}", e));
        }
        let raw_coq = copt(&opts, |s| hxs(s));
        // several requests per parsed rule
        let nreq = if got.is_ok() { 2 } else { 1 };
        for k in 0..nreq {
            let source_host = r.pick(SRC_HOSTS);
            let tbl = hash_table(opts.as_deref(), source_host);
            let parse_expr = format!("perr_eqb parsed_eqb (parse_rule_options (tbl_hash {}) {} {}) {}", tbl, sh.coq(), raw_coq, coq_parsed(&got));
            let interesting = opts.as_deref().map_or(false, |o| {
                o.contains("domain") || o.contains("from") || o.contains("party") || o.contains("1p") || o.contains("3p") || TYPE_NAMES.iter().any(|t| o.contains(t))
            });
            match &got {
                Err(e) => {
                    cs.case(parse_expr, json!({"kind": "parse", "rule": line, "shape": format!("{:?}", sh), "impl_error": e}), false);
                }
                Ok(f) => {
                    let scheme = r.pick(&["http", "https", "https", "ws", "wss", ""]);
                    let url = if scheme.is_empty() { format!("{}/ads1", host) } else { url_for_kind("plain", scheme, host) };
                    let raw_type = r.pick(RAW_TYPES);
                    let third = r.chance(1, 2);
                    let req = Request::preparsed(&url, host, source_host, raw_type, third);
                    let ok = adblock::filters::verif::check_options(f.mask, f.opt_domains.as_deref(), f.opt_domains_union, f.opt_not_domains.as_deref(), f.opt_not_domains_union, &req);
                    let model_req = format!("(from_detailed_parameters (tbl_hash {}) {} {} {} {})", tbl, hxs(raw_type), hxs(schema_of(&url)), hxs(source_host), cbool(third));
                    let check_expr = format!(
                        "request_eqb {mr} {ir} && Bool.eqb (match parse_rule_options (tbl_hash {tbl}) {sh} {raw} with POk p => rule_check_options p {mr} | PErr _ => false end) {ok}",
                        mr = model_req,
                        ir = coq_request(&req),
                        tbl = tbl,
                        sh = sh.coq(),
                        raw = raw_coq,
                        ok = cbool(ok)
                    );
                    let expr = if k == 0 { format!("{} && {}", parse_expr, check_expr) } else { check_expr };
                    cs.stat(if ok { "check_true" } else { "check_false" });
                    cs.case(
                        expr,
                        json!({"kind": "parse+check", "rule": line, "shape": format!("{:?}", sh), "mask": f.mask.bits(), "opt_domains": f.opt_domains, "opt_not_domains": f.opt_not_domains,
                               "url": url, "type": raw_type, "third": third, "source_host": source_host, "impl_check_options": ok}),
                        interesting,
                    );
                }
            }
        }
    }

    // ---------------------------------------------------------------- C: check_options on synthetic rule data
    let n = 300 * a.scale;
    for _ in 0..n {
        let source_host = r.pick(SRC_HOSTS);
        let scheme = r.pick(&["http", "https", "ws", "wss", "ftp", ""]);
        let host = r.pick(gen::HOSTS);
        let url = if scheme.is_empty() { format!("{}/x", host) } else { format!("{}://{}/x", scheme, host) };
        let raw_type = r.pick(RAW_TYPES);
        let third = r.chance(1, 2);
        let req = Request::preparsed(&url, host, source_host, raw_type, third);
        let src_hashes: Vec<u64> = req.source_hostname_hashes.clone().unwrap_or_default();
        // mask: default options with random bits flipped
        let mut mask: u32 = 204799;
        let flips = r.range(0, 6);
        for _ in 0..flips {
            mask ^= 1 << r.pick(&[0u32, 1, 2, 3, 4, 5, 6, 7, 8, 9, 10, 11, 12, 13, 16, 17, 22, 25, 27, 29, 29, 22, 11, 12, 16, 17]);
        }
        let mut mk = |r: &mut Rng| -> (Option<Vec<u64>>, Option<u64>) {
            if r.chance(1, 3) {
                return (None, if r.chance(1, 4) { Some(r.next()) } else { None });
            }
            let mut v: Vec<u64> = vec![];
            let k = r.range(1, 5);
            for _ in 0..k {
                if !src_hashes.is_empty() && r.chance(1, 3) {
                    v.push(src_hashes[r.below(src_hashes.len())]);
                } else if !src_hashes.is_empty() && r.chance(1, 4) {
                    // a sub-mask of a source hash: passes the union test, is not a member
                    v.push(src_hashes[0] & r.next());
                } else {
                    v.push(r.next());
                }
            }
            v.sort_unstable();
            let u = match r.below(5) {
                0 => None,
                1 => Some(r.next()),
                2 => Some(u64::MAX),
                _ => Some(v.iter().fold(0, |a, x| a | x)),
            };
            (Some(v), u)
        };
        let (od, odu) = mk(&mut r);
        let (ond, ondu) = mk(&mut r);
        let fm = adblock::filters::network::NetworkFilterMask::from_bits_retain(mask);
        let ok = adblock::filters::verif::check_options(fm, od.as_deref(), odu, ond.as_deref(), ondu, &req);
        let tbl = hash_table(None, source_host);
        let expr = format!(
            "Bool.eqb (check_options {} {} {} {} {} (from_detailed_parameters (tbl_hash {}) {} {} {} {})) {}",
            cn(mask),
            coq_olist(&od),
            coq_on(&odu),
            coq_olist(&ond),
            coq_on(&ondu),
            tbl,
            hxs(raw_type),
            hxs(schema_of(&url)),
            hxs(source_host),
            cbool(third),
            cbool(ok)
        );
        let inter = od.iter().chain(ond.iter()).any(|l| l.iter().any(|x| src_hashes.contains(x)));
        cs.stat(if ok { "synth_true" } else { "synth_false" });
        cs.case(expr, json!({"kind": "synth", "mask": mask, "od": od, "odu": odu, "ond": ond, "ondu": ondu, "url": url, "type": raw_type, "third": third, "source_host": source_host, "impl_check_options": ok}), inter);
    }

    // ---------------------------------------------------------------- oracle: option semantics vs NetworkFilter::matches
    let mut run = |d: Value, sm: &mut Summary, cs: &mut Cases| {
        sm.oracle_evaluations += 1;
        if let Some((class, what)) = oracle_case(&d, false) {
            cs.stat(if class.is_some() { "oracle_known_F3" } else { "oracle_failure" });
            sm.failure(class, &what, d);
        }
    };
    let n = 6000 * a.scale;
    for _ in 0..n {
        let kind = r.pick(ORACLE_KINDS);
        let host = r.pick(gen::HOSTS);
        let exception = r.chance(1, 5);
        let opts = if r.chance(1, 8) { gen_options(&mut r) } else { gen_valid_options(&mut r) };
        let opts = if kind == "regex" && r.chance(1, 3) { Some(opts.map_or("match-case".to_string(), |o| format!("{},match-case", o))) } else { opts };
        let d = json!({"kind": "match", "pattern_kind": kind, "host": host, "exception": exception, "options": opts,
                       "scheme": r.pick(SCHEMES), "type": r.pick(RAW_TYPES), "source_host": r.pick(SRC_HOSTS),
                       "mode": if r.chance(1, 2) { "new" } else { "preparsed" }, "third": r.chance(1, 2)});
        run(d, &mut sm, &mut cs);
    }
    // the F3 witness of DESIGN.md §2 (always run)
    run(json!({"kind": "match", "pattern_kind": "http", "host": "x.com", "exception": false, "options": Value::Null, "scheme": "ws", "type": "websocket", "source_host": "a.com", "mode": "new", "third": true}), &mut sm, &mut cs);
    if a.tier == "thorough" {
        // full product: type x party x scheme x option atom x pattern kind
        let mut atoms: Vec<Option<String>> = vec![None];
        for t in TYPE_NAMES {
            atoms.push(Some(t.to_string()));
            atoms.push(Some(format!("~{}", t)));
        }
        for t in PARTY_NAMES {
            atoms.push(Some(t.to_string()));
            atoms.push(Some(format!("~{}", t)));
        }
        for x in ["domain=a.com", "domain=~a.com", "domain=a.com|~sub.a.com", "removeparam=utm", "csp=x", "badfilter", "important", "redirect=noop.js", "script,~image", "removeparam=utm,~xhr", "removeparam=utm,script"] {
            atoms.push(Some(x.to_string()));
        }
        for kind in ORACLE_KINDS {
            for atom in &atoms {
                for ty in RAW_TYPES {
                    for scheme in SCHEMES {
                        for third in [false, true] {
                            for exception in [false, true] {
                                for src in ["sub.a.com", ""] {
                                    let d = json!({"kind": "match", "pattern_kind": kind, "host": "x.com", "exception": exception, "options": atom, "scheme": scheme, "type": ty,
                                                   "source_host": src, "mode": "preparsed", "third": third});
                                    run(d, &mut sm, &mut cs);
                                }
                            }
                        }
                    }
                }
            }
        }
    }

    // ---------------------------------------------------------------- oracle: unsupported schemes
    let n = 150 * a.scale;
    for _ in 0..n {
        let scheme = if r.chance(1, 4) { r.pick(SCHEMES) } else { r.pick(BAD_SCHEMES) };
        let host = r.pick(gen::HOSTS);
        // a third of the URLs with an unsupported scheme are written the way such URLs are: with no
        // `//` behind the colon (data:, about:, javascript:, blob:https://..., mailto:)
        let url = if !SCHEMES.contains(&scheme) && r.chance(1, 3) {
            match r.below(4) {
                0 => format!("{}:text/html,<img src=ads1.png>", scheme),
                1 => format!("{}:https://{}/ads1", scheme, host),
                2 => format!("{}:ads1@{}", scheme, host),
                _ => format!("{}:{}/ads1", scheme, host),
            }
        } else {
            format!("{}://{}/ads1", scheme, host)
        };
        let mut rules = vec!["*".to_string(), format!("||{}^", host), "ads".to_string(), "*$document".to_string(), "*$important".to_string()];
        if r.chance(1, 2) {
            rules.push(format!("||{}^$removeparam=utm", host));
            rules.push("*$redirect-rule=noop.js".to_string());
        }
        if r.chance(1, 3) {
            rules.push("@@*".to_string());
        }
        let d = json!({"kind": "unsupported", "url": url, "host": host, "type": r.pick(RAW_TYPES), "rules": rules, "source": "https://a.com/page",
                       "mode": if r.chance(1, 2) { "new" } else { "preparsed" }});
        sm.oracle_evaluations += 1;
        if let Some((class, what)) = unsupported_case(&d, false) {
            sm.failure(class, &what, d);
        }
    }

    cs.finish();
    sm.write(&a.out, &cs);
}
