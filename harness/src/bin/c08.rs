//! C08 — a deserialized engine behaves identically to the engine that was serialized.
//!
//! Oracle: for generated engines (network rules of every shape of `implrun::gen` incl. tags,
//! redirects with resources, csp, generichide, regex; cosmetic rules generic / specific /
//! procedural / scriptlet / exceptions; debug and optimize on/off) every query kind is compared
//! on the original and on the reloaded engine under several tag sets, with the bytes loaded into
//! an engine that already has (other) tags enabled.  Differences are classified: F8 (a removeparam
//! rule exists and only `rewritten_url` differs), F9 (the list was parsed with permission bits, a
//! scriptlet rule exists and only `injected_script` differs), anything else is a new violation.
//! Correspondence: the state the model predicts after the round trip
//! (`install … (to_wire …)`, C08_Model.digest) against the dumped state of the reloaded engine,
//! including the lost removeparam list and permission bits; `rules_okb` on the dumped state.
#[path = "../wire_common.rs"]
mod wire_common;
use adblock::verif_hooks::{dump_cosmetic, dump_engine_blocker};
use adblock::Engine;
use implrun::*;
use serde_json::{json, Value};
use wire_common::*;

struct Case {
    rules: Vec<String>,
    debug: bool,
    optimize: bool,
    perm: u8,
    t0: Vec<String>,
    tl: Vec<String>,
    qs: Vec<Query>,
}

fn strs(v: &[&str]) -> Vec<String> {
    v.iter().map(|s| s.to_string()).collect()
}
fn refs(v: &[String]) -> Vec<&str> {
    v.iter().map(|s| s.as_str()).collect()
}

#[derive(PartialEq, Clone, Copy, Debug)]
enum Kind {
    RewriteOnly,
    ScriptOnly,
    Other,
}
fn diff_kind(a: &str, b: &str) -> Kind {
    if a.starts_with("net ") && b.starts_with("net ") {
        if let (Some((pa, ra)), Some((pb, rb))) = (a.split_once(" rw="), b.split_once(" rw=")) {
            if let (Some((_, sa)), Some((_, sb))) = (ra.split_once(" exc="), rb.split_once(" exc=")) {
                if pa == pb && sa == sb {
                    return Kind::RewriteOnly;
                }
            }
        }
    }
    if a.starts_with("cos ") && b.starts_with("cos ") {
        if let (Some((pa, _)), Some((pb, _))) = (a.split_once(" script="), b.split_once(" script=")) {
            if pa == pb {
                return Kind::ScriptOnly;
            }
        }
    }
    Kind::Other
}

fn replay_json(c: &Case) -> Value {
    json!({"kind": "roundtrip", "rules": c.rules, "debug": c.debug, "optimize": c.optimize, "perm": c.perm, "t0": c.t0, "tl": c.tl,
           "queries": c.qs.iter().map(|q| json!([q.url, q.source, q.ty])).collect::<Vec<_>>()})
}

/// Runs the round trip; reports failures; returns (original engine with t0, reloaded engine as loaded, bytes).
fn run_case(sm: &mut Summary, c: &Case, verbose: bool) -> Option<(Engine, Engine, Vec<u8>)> {
    let mut e = build(&c.rules, c.debug, c.optimize, c.perm);
    e.use_tags(&refs(&c.t0));
    let bytes = e.serialize_raw().unwrap();
    let mut l = Engine::new(!c.optimize);
    l.use_resources(resources());
    l.use_tags(&refs(&c.tl));
    let rp = replay_json(c);
    if let Err(x) = l.deserialize(&bytes) {
        sm.failure(None, &format!("own bytes do not load: {:?}", x), rp);
        return None;
    }
    let has_rp = c.rules.iter().any(|l| l.contains("removeparam"));
    let has_js = c.rules.iter().any(|l| l.contains("+js("));
    let mut f8: Option<String> = None;
    let mut f9: Option<String> = None;
    let mut other: Option<String> = None;
    // the loader's tags survive the load
    for t in &c.tl {
        sm.oracle_evaluations += 1;
        if !l.tag_exists(t) {
            other = Some(format!("tag {} enabled on the loading engine is gone after deserialize", t));
        }
    }
    // first comparison: as loaded (loader's tags) vs the original under the loader's tags;
    // then under every tag set
    let mut orig = build(&c.rules, c.debug, c.optimize, c.perm);
    let mut first = true;
    let mut tagsets: Vec<Vec<String>> = vec![c.tl.clone()];
    tagsets.extend(TAGSETS.iter().map(|t| strs(t)));
    let mut l2 = Engine::new(!c.optimize);
    l2.use_resources(resources());
    l2.use_tags(&refs(&c.tl));
    l2.deserialize(&bytes).ok()?;
    for ts in &tagsets {
        orig.use_tags(&refs(ts));
        if !first {
            l2.use_tags(&refs(ts));
        }
        first = false;
        let a = answers(&orig, &c.qs);
        let b = answers(&l2, &c.qs);
        sm.oracle_evaluations += a.len() as u64;
        for (x, y) in a.iter().zip(b.iter()) {
            if x != y {
                let k = diff_kind(x, y);
                let msg = format!("tags {:?}: original `{}` reloaded `{}`", ts, x, y);
                if verbose {
                    println!("{:?}: {}", k, msg);
                }
                match k {
                    Kind::RewriteOnly if has_rp => { f8.get_or_insert(msg); }
                    Kind::ScriptOnly if c.perm != 0 && has_js => { f9.get_or_insert(msg); }
                    _ => { other.get_or_insert(msg); }
                }
            }
        }
        if a.len() != b.len() {
            other = Some("different number of answers".into());
        }
    }
    if let Some(m) = other {
        sm.failure(None, &m, rp.clone());
    }
    if let Some(m) = f8 {
        sm.failure(Some("F8_removeparam_not_serialized"), &m, rp.clone());
    }
    if let Some(m) = f9 {
        sm.failure(Some("F9_scriptlet_permission_lost"), &m, rp);
    }
    Some((e, l, bytes))
}

fn main() {
    let a = args();
    let mut sm = Summary::default();
    if let Some(p) = &a.replay {
        let v: Value = serde_json::from_str(&std::fs::read_to_string(p).unwrap()).unwrap();
        let rp = &v["replay"];
        let sl = |x: &Value| x.as_array().map(|v| v.iter().map(|s| s.as_str().unwrap_or("").to_string()).collect::<Vec<_>>()).unwrap_or_default();
        let c = Case {
            rules: sl(&rp["rules"]), debug: rp["debug"].as_bool().unwrap_or(false), optimize: rp["optimize"].as_bool().unwrap_or(true),
            perm: rp["perm"].as_u64().unwrap_or(0) as u8, t0: sl(&rp["t0"]), tl: sl(&rp["tl"]),
            qs: rp["queries"].as_array().map(|v| v.iter().map(|q| Query { url: q[0].as_str().unwrap_or("").into(), source: q[1].as_str().unwrap_or("").into(), ty: q[2].as_str().unwrap_or("").into() }).collect()).unwrap_or_default(),
        };
        run_case(&mut sm, &c, true);
        let n = sm.oracle_failures.len() + sm.known_hits.len();
        println!("rules={} differences={} (new={}, known-class={})", c.rules.len(), n, sm.oracle_failures.len(), sm.known_hits.len());
        if n > 0 {
            println!("VIOLATION property=C08 replay={}", p.display());
            std::process::exit(1);
        }
        return;
    }
    let mut r = Rng::new(a.seed);
    let mut cs = Cases::new(&a.out, "Generated Wire_Model C08_Model");
    cs.shard = 30;
    sm.rule = "random engines of 6-40 rules (all network shapes of gen::rule plus tags, redirects with resources, csp, generichide, regex; cosmetic generic/specific/procedural/scriptlet/exception rules), debug/optimize on/off, serializer tags and loader tags drawn independently, 14 requests + 28 hosts + class/id queries compared under 5 tag sets; 1 in 4 lists keeps its removeparam rules (F8 class), 1 in 5 is parsed with permission bits (F9 class). Correspondence non-trivial = the predicted reloaded state has at least 4 non-empty containers".into();
    let n = 240 * a.scale;
    for i in 0..n {
        let n_net = r.range(3, 25);
        let n_cos = r.range(3, 15);
        let mut rules = rule_list(&mut r, n_net, n_cos);
        let keep_rp = i % 4 == 3;
        if !keep_rp {
            rules = without_removeparam(&rules);
        } else {
            rules.push(format!("||{}^$removeparam={}", r.pick(gen::HOSTS), r.pick(gen::PARAMS)));
            rules.push("||ads.net^$removeparam=utm".to_string());
        }
        let perm = if i % 5 == 4 { 1 } else { 0 };
        if perm != 0 {
            rules.push("a.com##+js(perm.js, 1)".to_string());
            rules.push(format!("{}##+js(perm.js, {})", r.pick(gen::DOMAINS), i));
        }
        let (debug, optimize) = [(false, true), (true, true), (false, false), (true, false)][i % 4];
        let mut qs = queries(&mut r, &rules, 12);
        qs.push(Query { url: "https://ads.net/x?utm=1&b=2".into(), source: "https://a.com/".into(), ty: "xhr".into() });
        qs.push(Query { url: format!("https://{}/p?{}=1", r.pick(gen::HOSTS), r.pick(gen::PARAMS)), source: "https://b.com/".into(), ty: "document".into() });
        let c = Case {
            rules, debug, optimize, perm,
            t0: strs(TAGSETS[r.below(TAGSETS.len())]), tl: strs(TAGSETS[r.below(TAGSETS.len())]), qs,
        };
        let Some((e, l, bytes)) = run_case(&mut sm, &c, false) else { continue };
        // observation (not part of C08): the raw injected_script of one engine varies between calls
        if c.rules.iter().filter(|l| l.contains("##+js(")).count() >= 2 {
            for h in gen::DOMAINS {
                let u = format!("https://{}/p", h);
                let first = e.url_cosmetic_resources(&u).injected_script;
                if first.matches("try {").count() >= 2 {
                    let varies = (0..6).any(|_| e.url_cosmetic_resources(&u).injected_script != first);
                    cs.stat(if varies { "injected_script_block_order_varies_on_one_engine" } else { "injected_script_block_order_stable_6_calls" });
                }
            }
        }
        // ---- correspondence: predicted reloaded state vs dumped reloaded state
        let cd = dump_cosmetic(&e);
        let dl = dump_engine_blocker(&l);
        let ft = dl.lists.iter().find(|(n, _)| *n == "filters_tagged").map(|(_, l)| l.clone()).unwrap_or_default();
        let nonempty = dl.lists.iter().filter(|(_, l)| !l.is_empty()).count()
            + [cd.simple_class_rules.len(), cd.complex_class_rules.len(), cd.hide.len(), cd.unhide.len(), cd.inject_script.len(), cd.procedural_action.len(), cd.misc_generic_selectors.len()].iter().filter(|&&n| n > 0).count();
        let expr = format!(
            "mp_eqb (digest (install (fun _ _ => {ft}) (loader {tl}) (to_wire {css} {b} {c}))) {d}",
            ft = coq_bucket_map(&mut r, &ft), tl = cstrs(&c.tl), css = coq_css_table(&cd),
            b = coq_blocker(&mut r, &e), c = coq_cosmetic(&mut r, &e), d = mp_digest(&l)
        );
        cs.stat(if keep_rp { "state_with_removeparam" } else if perm != 0 { "state_with_permissions" } else { "state_plain" });
        cs.case(expr, json!({"rules": c.rules, "debug": debug, "optimize": optimize, "perm": perm, "t0": c.t0, "tl": c.tl, "bytes": bytes.len()}), nonempty >= 4);
        if i % 2 == 1 {
            // the class/id query itself: model on the dumped (shuffled) cosmetic state vs the engine
            let mut excs: Vec<String> = vec![format!(".{}", r.pick(CLASSES)), format!("#{}", r.pick(IDS))];
            for (_, v) in cd.complex_class_rules.iter().chain(cd.complex_id_rules.iter()) {
                if r.chance(1, 3) {
                    excs.push(v[r.below(v.len())].clone());
                }
            }
            let set: std::collections::HashSet<String> = excs.iter().cloned().collect();
            for eng in [&e, &l] {
                let got = eng.hidden_class_id_selectors(CLASSES.iter(), IDS.iter(), &set);
                let cl: Vec<String> = CLASSES.iter().map(|s| s.to_string()).collect();
                let ids: Vec<String> = IDS.iter().map(|s| s.to_string()).collect();
                cs.stat("class_id_query");
                cs.case(
                    format!("list_eqb str_eqb (hidden_class_id_selectors {} {} {} {}) {}", coq_cosmetic(&mut r, eng), cstrs(&cl), cstrs(&ids), cstrs(&excs), cstrs(&got)),
                    json!({"rules": c.rules, "exceptions": excs, "impl": got}), !got.is_empty());
            }
        }
        if i % 2 == 0 {
            let has_mod = dump_engine_blocker(&e).lists.iter().any(|(_, l)| l.iter().any(|(_, b)| b.iter().any(|f| f.modifier_option.is_some())));
            cs.stat("rules_ok_on_impl_state");
            cs.case(format!("rules_okb {}", coq_blocker(&mut r, &e)), json!({"rules": c.rules, "what": "rules_okb on the dumped state"}), has_mod);
        }
    }
    cs.finish();
    sm.write(&a.out, &cs);
}
