//! C13 — the redirect of a verdict is the data-URL of the best permitted matching redirect resource.
//! Correspondence: Engine::check_network_request(..).redirect vs the Gallina
//! `check_verdict`/`redirect_of` (C13_Model.v) on (resource list handed to use_resources, the
//! redirect rules that match per NetworkFilter::matches in the order check_all delivers them);
//! category assignment of Blocker::new vs `category_of`; Rust's `str::parse::<i32>` vs `parse_i32`.
//! Oracle: an independent Rust restatement (arg-max set over non-excepted candidates, resource
//! gate, blocking side) run on the same inputs.
use adblock::filters::network::{NetworkFilter, NetworkFilterMaskHelper, NetworkMatchable};
use adblock::regex_manager::RegexManager;
use adblock::request::Request;
use adblock::resources::{MimeType, PermissionMask, Resource, ResourceType};
use adblock::Engine;
use implrun::*;
use serde_json::{json, Value};
use std::collections::{BTreeSet, HashSet};

// ------------------------------------------------------------------ resources
#[derive(Clone)]
struct Res {
    name: String,
    aliases: Vec<String>,
    template: bool,
    mime: String, // MIME string (ignored for templates)
    bytes: Vec<u8>,
    bad_base64: bool,
    deps: Vec<String>,
    permission: u8,
}

fn b64(data: &[u8]) -> String {
    const T: &[u8; 64] = b"ABCDEFGHIJKLMNOPQRSTUVWXYZabcdefghijklmnopqrstuvwxyz0123456789+/";
    let mut o = String::new();
    for ch in data.chunks(3) {
        let b = [ch[0], *ch.get(1).unwrap_or(&0), *ch.get(2).unwrap_or(&0)];
        let n = ((b[0] as u32) << 16) | ((b[1] as u32) << 8) | b[2] as u32;
        o.push(T[(n >> 18) as usize & 63] as char);
        o.push(T[(n >> 12) as usize & 63] as char);
        o.push(if ch.len() > 1 { T[(n >> 6) as usize & 63] as char } else { '=' });
        o.push(if ch.len() > 2 { T[n as usize & 63] as char } else { '=' });
    }
    o
}

impl Res {
    fn content(&self) -> String {
        if self.bad_base64 {
            "!!!not-base64".to_string()
        } else {
            b64(&self.bytes)
        }
    }
    fn textual(&self) -> bool {
        matches!(
            self.mime.as_str(),
            "application/javascript" | "fn/javascript" | "application/json" | "text/css" | "text/plain" | "text/html" | "text/xml"
        )
    }
    /// what add_resource validates for MIME kinds (base64 decodes; UTF-8 if textual)
    fn content_ok(&self) -> bool {
        !self.bad_base64 && (!self.textual() || std::str::from_utf8(&self.bytes).is_ok())
    }
    fn to_resource(&self) -> Resource {
        Resource {
            name: self.name.clone(),
            aliases: self.aliases.clone(),
            kind: if self.template { ResourceType::Template } else { ResourceType::Mime(MimeType::from(self.mime.as_str())) },
            content: self.content(),
            dependencies: self.deps.clone(),
            permission: PermissionMask::from_bits(self.permission),
        }
    }
    fn json(&self) -> Value {
        json!({"name": self.name, "aliases": self.aliases, "template": self.template, "mime": self.mime, "bytes": self.bytes, "bad_base64": self.bad_base64, "deps": self.deps, "permission": self.permission})
    }
    fn from_json(v: &Value) -> Res {
        let strs = |x: &Value| -> Vec<String> { x.as_array().map(|a| a.iter().map(|s| s.as_str().unwrap_or("").to_string()).collect()).unwrap_or_default() };
        Res {
            name: v["name"].as_str().unwrap_or("").to_string(),
            aliases: strs(&v["aliases"]),
            template: v["template"].as_bool().unwrap_or(false),
            mime: v["mime"].as_str().unwrap_or("").to_string(),
            bytes: v["bytes"].as_array().map(|a| a.iter().map(|b| b.as_u64().unwrap_or(0) as u8).collect()).unwrap_or_default(),
            bad_base64: v["bad_base64"].as_bool().unwrap_or(false),
            deps: strs(&v["deps"]),
            permission: v["permission"].as_u64().unwrap_or(0) as u8,
        }
    }
    fn coq(&self) -> String {
        format!(
            "mk_res {} {} (kind_of_string {} \"{}\") {} {} {} {}",
            hxs(&self.name),
            cstrs(&self.aliases),
            cbool(self.template),
            self.mime,
            hxs(&self.content()),
            cbool(!self.deps.is_empty()),
            cbool(self.content_ok()),
            cn(self.permission)
        )
    }
}

fn res(name: &str, aliases: &[&str], mime: &str, bytes: &[u8]) -> Res {
    Res { name: name.into(), aliases: aliases.iter().map(|s| s.to_string()).collect(), template: false, mime: mime.into(), bytes: bytes.to_vec(), bad_base64: false, deps: vec![], permission: 0 }
}

fn gen_store(r: &mut Rng) -> Vec<Res> {
    let mut pool: Vec<Res> = vec![
        res("noop.js", &["noopjs", "noop"], "application/javascript", b"(function(){})()"),
        res("noop.txt", &["nooptext"], "text/plain", b""),
        res("1x1.gif", &["1x1-transparent.gif"], "image/gif", &[0x47, 0x49, 0x46, 0x38, 0x39, 0x61, 0x01, 0x00, 0xff, 0xfe]),
        res("fn.js", &["fnjs"], "fn/javascript", b"function f(){}"),
        res("unknown.bin", &[], "application/x-unknown", &[0, 159, 146, 150]),
        res("style.css", &["css"], "text/css", b"a{}"),
        res("x", &["y:3"], "text/html", b"<p>"),
    ];
    pool.push(Res { template: true, ..res("tmpl.js", &["tmpl"], "", b"{{1}}") });
    pool.push(Res { permission: 1, ..res("perm.js", &["permjs"], "application/javascript", b"perm()") });
    pool.push(Res { permission: 128, ..res("perm.txt", &[], "text/plain", b"p") });
    let mut v = vec![];
    for p in pool {
        if r.chance(5, 6) {
            v.push(p);
        }
    }
    // deliberate collisions and rejected resources
    if r.chance(1, 4) {
        v.push(res("noopjs", &["other"], "text/plain", b"second")); // name collides with an alias
    }
    if r.chance(1, 4) {
        v.push(res("second.txt", &["noop.txt", "sec"], "text/plain", b"alias collides with a name"));
    }
    if r.chance(1, 5) {
        v.push(res("noop.js", &[], "text/plain", b"duplicate name"));
    }
    if r.chance(1, 5) {
        v.push(Res { bad_base64: true, ..res("bad.js", &["badjs"], "application/javascript", b"") });
    }
    if r.chance(1, 5) {
        v.push(res("latin1.js", &[], "application/javascript", &[0xe9, 0x28])); // textual but not UTF-8
    }
    if r.chance(1, 5) {
        v.push(Res { deps: vec!["fn.js".into()], ..res("deps.txt", &[], "text/plain", b"d") });
    }
    if r.chance(1, 5) {
        v.push(Res { deps: vec!["fn.js".into()], ..res("deps.js", &["depsjs"], "application/javascript", b"d()") });
    }
    if r.chance(1, 6) {
        v.push(Res { bad_base64: true, template: true, ..res("badtmpl.js", &[], "", b"") }); // templates are not validated
    }
    if r.chance(1, 8) {
        v.push(res("self.txt", &["self.txt", "selfalias"], "text/plain", b"own name as alias"));
    }
    for i in (1..v.len()).rev() {
        let j = r.below(i + 1);
        v.swap(i, j);
    }
    v
}

const NAMES: &[&str] = &[
    "noop.js", "noop.js", "noop.js", "noop.txt", "noop.txt", "1x1.gif", "1x1.gif", "style.css", "noopjs", "noopjs", "noop.js", "noop.js", "noopjs", "noop", "noop.txt", "nooptext", "1x1.gif", "1x1-transparent.gif", "fn.js", "tmpl.js", "tmpl",
    "perm.js", "permjs", "perm.txt", "missing.js", "unknown.bin", "style.css", "other", "sec", "second.txt", "bad.js", "latin1.js",
    "deps.txt", "deps.js", "badtmpl.js", "x", "y", "y:3", "self.txt", "selfalias", "NOOP.JS",
];
const SUFFIXES: &[&str] = &[
    "", "", "", "", "", ":10", ":10", ":-1", ":1", ":1", ":2", ":10", ":-1", ":x", ":", ":+3", ":2147483648", ":2147483647", ":-2147483648", ":-2147483649", ":007", ":1 ",
    ":1:2", ":+", ":-", ":1e3", ":\u{ff11}", ": 2147483648", ":0", ":5", ":5", ":-0", ":+-1", ":00000000000000000000012", ":99999999999999999999",
    ":3", ":3",
];
const RHOSTS: &[&str] = &["foo.com", "ads.net", "example.com", "sub.example.com"];
const PATHS: &[&str] = &["ads", "foo", "banner", "ads/foo", "x.js", "pixel.gif"];

fn pat(r: &mut Rng) -> String {
    match r.below(9) {
        0 | 1 | 2 => format!("||{}^", r.pick(RHOSTS)),
        3 => format!("||{}/{}", r.pick(RHOSTS), r.pick(PATHS)),
        4 | 5 => format!("/{}", r.pick(PATHS)),
        6 => "*".to_string(),
        7 => format!("|https://{}/", r.pick(RHOSTS)),
        _ => gen::pattern(r),
    }
}

fn redirect_rule(r: &mut Rng) -> String {
    let exception = r.chance(1, 4);
    let opt = if exception {
        if r.chance(2, 3) { "redirect-rule" } else { "redirect" }
    } else if r.chance(1, 2) {
        "redirect"
    } else {
        "redirect-rule"
    };
    let mut opts = vec![format!("{}={}{}", opt, r.pick(NAMES), r.pick(SUFFIXES))];
    if r.chance(1, 5) {
        opts.push((r.pick(&["script", "image", "~script", "xhr", "subdocument", "document", "~image", "css"])).to_string());
    }
    if r.chance(1, 8) {
        opts.push(gen::domain_opt(r));
    }
    if r.chance(1, 10) {
        opts.push((r.pick(&["third-party", "~third-party", "1p"])).to_string());
    }
    if r.chance(1, 12) {
        opts.push("important".into());
    }
    if r.chance(1, 16) {
        opts.push(format!("tag={}", r.pick(gen::TAGS)));
    }
    if r.chance(1, 30) {
        opts.push("badfilter".into());
    }
    if r.chance(1, 30) {
        opts.push("generichide".into());
    }
    if r.chance(1, 40) {
        opts.push("csp=a".into()); // rejected: two modifier options
    }
    if r.chance(1, 3) {
        let i = r.below(opts.len());
        let o = opts.remove(i);
        opts.push(o);
    }
    format!("{}{}${}", if exception { "@@" } else { "" }, pat(r), opts.join(","))
}

fn gen_rules(r: &mut Rng) -> Vec<String> {
    let n = r.range(1, 5);
    let mut v: Vec<String> = (0..n).map(|_| redirect_rule(r)).collect();
    if r.chance(1, 3) {
        // the same rule under the other option / as an exception / with badfilter
        let i = r.below(v.len());
        let d = v[i].clone();
        v.push(match r.below(4) {
            0 => d,
            1 => format!("@@{}", d.trim_start_matches("@@")),
            2 => format!("{},badfilter", d),
            _ => d.replace("redirect=", "redirect-rule="),
        });
    }
    if r.chance(1, 3) {
        v.push(gen::rule(r, false));
    }
    if r.chance(1, 4) {
        v.push(pat(r)); // plain blocking rule
    }
    if r.chance(1, 4) {
        v.push(format!("@@{}", pat(r))); // plain exception: unblocks, must not touch the redirect
    }
    if r.chance(1, 8) {
        v.push(format!("{}$important", pat(r)));
    }
    for i in (1..v.len()).rev() {
        let j = r.below(i + 1);
        v.swap(i, j);
    }
    v
}

fn gen_url(r: &mut Rng) -> String {
    let scheme = if r.chance(1, 40) { "ftp" } else { r.pick(&["https", "https", "http"]) };
    let mut s = format!("{}://{}/", scheme, r.pick(RHOSTS));
    match r.below(5) {
        0 => {}
        1 | 2 => s.push_str(r.pick(PATHS)),
        3 => {
            let p = r.pick(PATHS);
            s.push_str(&format!("{}/{}", p, p)); // repeated tokens: rules delivered twice
        }
        _ => s.push_str(&gen::segs(r, 1, 3).replace('^', "/").replace('*', "-")),
    }
    s
}

// ------------------------------------------------------------------ case
struct Case {
    rules: Vec<String>,
    store: Vec<Res>,
    tags: Vec<String>,
    url: String,
    source: String,
    ty: String,
    optimize: bool,
}
impl Case {
    fn json(&self) -> Value {
        json!({"rules": self.rules, "resources": self.store.iter().map(|x| x.json()).collect::<Vec<_>>(), "tags": self.tags,
               "url": self.url, "source": self.source, "type": self.ty, "optimize": self.optimize})
    }
    fn from_json(v: &Value) -> Case {
        let strs = |x: &Value| -> Vec<String> { x.as_array().map(|a| a.iter().map(|s| s.as_str().unwrap_or("").to_string()).collect()).unwrap_or_default() };
        Case {
            rules: strs(&v["rules"]),
            store: v["resources"].as_array().map(|a| a.iter().map(Res::from_json).collect()).unwrap_or_default(),
            tags: strs(&v["tags"]),
            url: v["url"].as_str().unwrap_or("").to_string(),
            source: v["source"].as_str().unwrap_or("").to_string(),
            ty: v["type"].as_str().unwrap_or("").to_string(),
            optimize: v["optimize"].as_bool().unwrap_or(true),
        }
    }
}

struct Outcome {
    supported: bool,
    /// matching untagged redirect rules in check_all delivery order: (is_exception, option, line)
    matching: Vec<(bool, Option<String>, String)>,
    scan_equals_delivery: bool,
    got_redirect: Option<String>,
    got_matched: bool,
    got_important: bool,
    /// blocking side by per-rule scan
    redirect_opt_matches: bool,        // an active `redirect=` rule (not exception/generichide) matches
    exception_matches: bool,           // an active rule of the exceptions category matches
    other_blocker_matches: bool,       // an active blocking rule that is not a pure redirect-rule matches
    rr_important_matches: bool,        // a matching redirect-rule + important rule (must not block)
    /// like `matching`, plus the matching redirect rules whose tag is ENABLED (the crate never serves them)
    matching_with_enabled_tags: Vec<(bool, Option<String>, String)>,
    tagged_redirect_opt_matches: bool, // a matching `redirect=` rule with an enabled tag (known class)
    shapes: Vec<(String, u32, bool, &'static str, bool)>, // line, mask, tagged, category, in redirects
    /// (added rule, redirect, matched) of the same list plus one plain exception / blocking / important rule
    variants: Vec<(String, Option<String>, bool)>,
}

fn active_tag(f: &NetworkFilter, tags: &[String]) -> bool {
    match adblock::verif_hooks::filter_tag(f) {
        None => true,
        Some(t) => tags.iter().any(|x| x == t),
    }
}

fn eval(c: &Case, want_shapes: bool) -> Option<Outcome> {
    let req = Request::new(&c.url, &c.source, &c.ty).ok()?;
    let mut engine = Engine::from_rules_parametrised(c.rules.iter(), Default::default(), true, c.optimize);
    engine.use_resources(c.store.iter().map(|x| x.to_resource()));
    let tags: Vec<&str> = c.tags.iter().map(|s| s.as_str()).collect();
    engine.use_tags(&tags);
    let res = engine.check_network_request(&req);

    let parsed: Vec<(String, NetworkFilter)> = c
        .rules
        .iter()
        .filter_map(|l| match adblock::lists::parse_filter(l, true, Default::default()) {
            Ok(adblock::lists::ParsedFilter::Network(f)) => Some((l.trim().to_string(), f)),
            _ => None,
        })
        .collect();
    let bad_ids: HashSet<u64> = parsed.iter().filter(|(_, f)| f.is_badfilter()).map(|(_, f)| f.get_id_without_badfilter()).collect();
    let live: Vec<&(String, NetworkFilter)> = parsed.iter().filter(|(_, f)| !f.is_badfilter() && !bad_ids.contains(&f.get_id())).collect();

    // per-rule scan
    let mut scan: Vec<(bool, Option<String>, String)> = vec![];
    let (mut redirect_opt_matches, mut exception_matches, mut other_blocker_matches, mut rr_important_matches) = (false, false, false, false);
    let mut enabled_tagged: Vec<(bool, Option<String>, String)> = vec![];
    let mut tagged_redirect_opt_matches = false;
    for (line, f) in live.iter().map(|x| (&x.0, &x.1)) {
        let mut rm = RegexManager::default();
        if !f.matches(&req, &mut rm) {
            continue;
        }
        let tagged = adblock::verif_hooks::filter_tag(f).is_some();
        if f.is_redirect() && !tagged {
            scan.push((f.is_exception(), f.modifier_option.clone(), line.clone()));
        }
        if f.is_redirect() && tagged && active_tag(f, &c.tags) {
            enabled_tagged.push((f.is_exception(), f.modifier_option.clone(), line.clone()));
            if !f.is_exception() && !f.is_generic_hide() && f.also_block_redirect() && !f.is_important() {
                tagged_redirect_opt_matches = true;
            }
        }
        if f.is_csp() || f.is_removeparam() || f.is_generic_hide() {
            continue;
        }
        if f.is_exception() {
            if active_tag(f, &c.tags) {
                exception_matches = true;
            }
            continue;
        }
        let pure_redirect_rule = f.is_redirect() && !f.also_block_redirect();
        // `filters` is probed with no tags; `importants` and the tagged list with the enabled tags
        let active = if f.is_important() { active_tag(f, &c.tags) } else if f.is_redirect() { !tagged } else { active_tag(f, &c.tags) };
        if !active {
            continue;
        }
        if pure_redirect_rule {
            if f.is_important() {
                rr_important_matches = true;
            }
            continue;
        }
        other_blocker_matches = true;
        if f.is_redirect() {
            redirect_opt_matches = true;
        }
    }

    // delivery order: a NetworkFilterList built like Blocker::new builds `redirects`
    let redirect_filters: Vec<NetworkFilter> = live.iter().filter(|(_, f)| f.is_redirect()).map(|(_, f)| f.clone()).collect();
    let replica = adblock::verif_hooks::FilterList::new(redirect_filters, c.optimize);
    let mut rm = RegexManager::default();
    let delivered = replica.check_all(&req, &HashSet::new(), &mut rm);
    let delivered_lines: BTreeSet<String> = delivered.iter().filter_map(|d| d.raw_line.clone()).collect();
    let scan_lines: BTreeSet<String> = scan.iter().map(|x| x.2.clone()).collect();
    let scan_equals_delivery = delivered_lines == scan_lines;
    let matching = if scan_equals_delivery {
        delivered
            .iter()
            .map(|d| {
                let l = d.raw_line.clone().unwrap_or_default();
                let s = scan.iter().find(|x| x.2 == l).unwrap();
                (s.0, s.1.clone(), l)
            })
            .collect()
    } else {
        scan
    };

    let mut matching_with_enabled_tags = matching.clone();
    matching_with_enabled_tags.extend(enabled_tagged);

    let mut shapes = vec![];
    if want_shapes {
        let plain = Engine::from_rules_parametrised(c.rules.iter(), Default::default(), true, false);
        let dump = adblock::verif_hooks::dump_engine_blocker(&plain);
        for (line, f) in live.iter().map(|x| (&x.0, &x.1)) {
            let mut cat = "CatNowhere";
            let mut in_redirects = false;
            for (name, buckets) in &dump.lists {
                let here = buckets.iter().any(|(_, b)| b.iter().any(|d| d.raw_line.as_deref() == Some(line.as_str())));
                if !here {
                    continue;
                }
                match *name {
                    "redirects" => in_redirects = true,
                    "csp" => cat = "CatCsp",
                    "removeparam" => cat = "CatRemoveparam",
                    "generic_hide" => cat = "CatGenericHide",
                    "exceptions" => cat = "CatExceptions",
                    "importants" => cat = "CatImportants",
                    "filters" => cat = "CatFilters",
                    _ => {}
                }
            }
            if dump.tagged_filters_all.iter().any(|d| d.raw_line.as_deref() == Some(line.as_str())) {
                cat = "CatTagged";
            }
            shapes.push((line.clone(), adblock::verif_hooks::dump_filter(f).mask, adblock::verif_hooks::filter_tag(f).is_some(), cat, in_redirects));
        }
    }

    let mut variants = vec![];
    for extra in [format!("@@||{}^", req.hostname), format!("||{}^", req.hostname), format!("||{}^$important", req.hostname)] {
        let mut rules2 = c.rules.clone();
        rules2.push(extra.clone());
        let mut e2 = Engine::from_rules_parametrised(rules2.iter(), Default::default(), true, c.optimize);
        e2.use_resources(c.store.iter().map(|x| x.to_resource()));
        e2.use_tags(&tags);
        let r2 = e2.check_network_request(&req);
        variants.push((extra, r2.redirect, r2.matched));
    }

    Some(Outcome {
        variants,
        supported: req.is_supported,
        matching,
        scan_equals_delivery,
        got_redirect: res.redirect,
        got_matched: res.matched,
        got_important: res.important,
        redirect_opt_matches,
        exception_matches,
        other_blocker_matches,
        rr_important_matches,
        matching_with_enabled_tags,
        tagged_redirect_opt_matches,
        shapes,
    })
}

// ------------------------------------------------------------------ independent specification
fn spec_parse_i32(s: &str) -> Option<i64> {
    let b = s.as_bytes();
    let (neg, digits) = match b.first() {
        Some(b'-') => (true, &b[1..]),
        Some(b'+') => (false, &b[1..]),
        _ => (false, b),
    };
    if digits.is_empty() || !digits.iter().all(|c| c.is_ascii_digit()) {
        return None;
    }
    let mut v: i64 = 0;
    for d in digits {
        v = v * 10 + (d - b'0') as i64;
        if v > (1 << 40) {
            return None;
        }
    }
    let v = if neg { -v } else { v };
    if v < -(1 << 31) || v > (1 << 31) - 1 {
        None
    } else {
        Some(v)
    }
}
fn spec_split(s: &str) -> (String, i64) {
    if let Some((name, suffix)) = s.rsplit_once(':') {
        if let Some(p) = spec_parse_i32(suffix) {
            return (name.to_string(), p);
        }
    }
    (s.to_string(), 0)
}
fn spec_mime_name(m: &str) -> &'static str {
    match m {
        "text/css" => "text/css",
        "image/gif" => "image/gif",
        "text/html" => "text/html",
        "application/javascript" => "application/javascript",
        "application/json" => "application/json",
        "audio/mp3" => "audio/mp3",
        "video/mp4" => "video/mp4",
        "image/png" => "image/png",
        "text/plain" => "text/plain",
        "text/xml" => "text/xml",
        "fn/javascript" => "fn/javascript",
        _ => "application/octet-stream",
    }
}
/// the resource a name denotes: first accepted resource owning the identifier
fn spec_lookup<'a>(store: &'a [Res], ident: &str) -> Option<&'a Res> {
    let mut taken: HashSet<&str> = HashSet::new();
    let mut loaded: Vec<&Res> = vec![];
    for x in store {
        let valid = x.template || (x.content_ok() && (x.deps.is_empty() || matches!(x.mime.as_str(), "application/javascript" | "fn/javascript")));
        let idents: Vec<&str> = std::iter::once(x.name.as_str()).chain(x.aliases.iter().map(|a| a.as_str())).collect();
        if !valid || idents.iter().any(|i| taken.contains(i)) {
            continue;
        }
        taken.extend(idents);
        loaded.push(x);
    }
    loaded.iter().find(|x| x.name == ident).or_else(|| loaded.iter().find(|x| x.aliases.iter().any(|a| a == ident))).copied()
}
fn spec_gate(store: &[Res], ident: &str) -> Option<String> {
    let x = spec_lookup(store, ident)?;
    if x.permission != 0 || x.template || x.mime == "fn/javascript" {
        return None;
    }
    Some(format!("data:{};base64,{}", spec_mime_name(&x.mime), x.content()))
}
/// the set of acceptable answers (ties between different resources at the top priority)
fn reference(supported: bool, matching: &[(bool, Option<String>, String)], store: &[Res]) -> Vec<Option<String>> {
    if !supported {
        return vec![None];
    }
    let excepted: BTreeSet<String> = matching.iter().filter(|m| m.0).filter_map(|m| m.1.as_ref()).map(|s| spec_split(s).0).collect();
    let cands: Vec<(String, i64)> = matching.iter().filter(|m| !m.0).filter_map(|m| m.1.as_ref()).map(|s| spec_split(s)).filter(|(n, _)| !excepted.contains(n)).collect();
    let Some(max) = cands.iter().map(|c| c.1).max() else { return vec![None] };
    let names: BTreeSet<&String> = cands.iter().filter(|c| c.1 == max).map(|c| &c.0).collect();
    names.into_iter().map(|n| spec_gate(store, n)).collect()
}

/// runs the oracle; returns (class, message) of a failure
fn oracle(c: &Case, o: &Outcome) -> Option<(Option<&'static str>, String)> {
    let allowed = reference(o.supported, &o.matching, &c.store);
    if !allowed.contains(&o.got_redirect) {
        return Some((None, format!("redirect {:?} but the specification allows {:?}", o.got_redirect, allowed)));
    }
    // the redirect does not depend on the blocking side: adding a plain exception, a plain blocking
    // rule or an $important rule for the request's host changes `matched` at most.  (Ties between
    // different resources at the top priority are exempt: an added rule may reorder buckets.)
    if allowed.len() == 1 {
        for (extra, red, _) in &o.variants {
            if red != &o.got_redirect {
                return Some((None, format!("adding {:?} changed the redirect from {:?} to {:?}", extra, o.got_redirect, red)));
            }
        }
    }
    if o.supported {
        if o.variants[0].2 && !o.got_important {
            return Some((None, format!("still blocked after adding the plain exception {:?} although no important rule blocks", o.variants[0].0)));
        }
    }
    if !o.supported {
        if o.got_matched {
            return Some((None, "unsupported request reported as matched".into()));
        }
        return None;
    }
    // a redirect= rule also blocks (unless an exception applies)
    if o.redirect_opt_matches && !o.exception_matches && !o.got_matched {
        return Some((None, "a matching redirect= rule did not block the request".into()));
    }
    // redirect-rule never blocks
    if o.got_matched && !o.other_blocker_matches {
        if o.rr_important_matches {
            // was the known class C13_redirect_rule_important_blocks; repaired in /repo b0d8343
            return Some((None, "request blocked although only redirect-rule rules (with important) match".into()));
        }
        return Some((None, "request blocked although no blocking rule other than redirect-rule matches".into()));
    }
    // known class: a redirect / redirect-rule option on a rule whose tag is enabled is never served
    // and never blocks (`redirects` and `filters` are probed with the empty tag set)
    if o.matching_with_enabled_tags.len() != o.matching.len() {
        let strict = reference(o.supported, &o.matching_with_enabled_tags, &c.store);
        if !strict.contains(&o.got_redirect) {
            return Some((Some("C13_tagged_redirect_inert"), format!("redirect {:?} but with the enabled-tag redirect rules counted the specification allows {:?}", o.got_redirect, strict)));
        }
        if o.tagged_redirect_opt_matches && !o.exception_matches && !o.got_matched {
            return Some((Some("C13_tagged_redirect_inert"), "a matching redirect= rule with an enabled tag did not block the request".into()));
        }
    }
    None
}

fn i32_stream(r: &mut Rng) -> String {
    const ATOMS: &[&str] = &["", "0", "1", "7", "9", "00", "21474", "83647", "83648", "83649", "2147483647", "2147483648", "-", "+", " ", "x", "e", ".", "\u{ff11}", "_", "99999999999"];
    let mut s = String::new();
    if r.chance(1, 3) {
        s.push_str(r.pick(&["-", "+", "", ""]));
    }
    for _ in 0..r.range(0, 3) {
        s.push_str(r.pick(ATOMS));
    }
    s
}

fn main() {
    let a = args();
    if let Some(p) = &a.replay {
        let v: Value = serde_json::from_str(&std::fs::read_to_string(p).unwrap()).unwrap();
        if let Some(t) = v["replay"]["i32"].as_str() {
            println!("str::parse::<i32>({:?}) = {:?}; grammar = {:?}", t, t.parse::<i32>().ok(), spec_parse_i32(t));
            if t.parse::<i32>().ok().map(|x| x as i64) != spec_parse_i32(t) {
                println!("VIOLATION property=C13 replay={}", p.display());
                std::process::exit(1);
            }
            return;
        }
        let c = Case::from_json(&v["replay"]);
        let o = eval(&c, false).expect("request could not be built");
        println!(
            "matching={:?} impl: redirect={:?} matched={} important={}; spec allows {:?}; redirect_opt_matches={} exception_matches={} other_blocker_matches={} rr_important_matches={} enabled_tag_redirect_rules={}",
            o.matching, o.got_redirect, o.got_matched, o.got_important, reference(o.supported, &o.matching, &c.store),
            o.redirect_opt_matches, o.exception_matches, o.other_blocker_matches, o.rr_important_matches,
            o.matching_with_enabled_tags.len() - o.matching.len()
        );
        if let Some((class, what)) = oracle(&c, &o) {
            println!("{} ({})", what, class.unwrap_or("new"));
            println!("VIOLATION property=C13 replay={}", p.display());
            std::process::exit(1);
        }
        return;
    }
    let mut r = Rng::new(a.seed);
    let mut cs = Cases::new(&a.out, "Generated C13_Model");
    let mut sm = Summary::default();
    sm.rule = "random lists of 1-6 redirect / redirect-rule rules and redirect exceptions over 31 resource names x 29 priority suffixes (weighted towards loadable names and well-formed priorities) (negative, equal, signed, overflowing, malformed), with type/domain/party/important/tag/badfilter/generichide options, mixed with plain blocking rules, plain exceptions and $important rules; resource stores drawn from 10 resources (aliases, gif/binary, fn/javascript, template, two permissioned) plus colliding, invalid-base64, non-UTF-8 and dependency-carrying ones in random order; requests of all type strings on 4 hosts (incl. an unsupported scheme); non-trivial = at least one redirect rule matches the request".into();
    let n = 1500 * a.scale;
    let mut shape_seen: BTreeSet<(u32, bool)> = BTreeSet::new();
    let mut all: Vec<Case> = vec![];
    for _ in 0..n {
        let rules = gen_rules(&mut r);
        let url = if r.chance(1, 5) { gen::url_for(&mut r, &rules[0]) } else { gen_url(&mut r) };
        // never an empty source: "no source + domain= rule" is the C01 finding F2, not a C13 matter
        let source = if r.chance(1, 2) { format!("https://{}/page", r.pick(gen::DOMAINS)) } else { format!("https://{}/", r.pick(RHOSTS)) };
        let mut tags = vec![];
        for t in gen::TAGS {
            if r.chance(1, 2) {
                tags.push(t.to_string());
            }
        }
        all.push(Case { rules, store: gen_store(&mut r), tags, url, source, ty: gen::request_type(&mut r).to_string(), optimize: r.chance(2, 3) });
    }
    // exhaustive sweep: every subset of 8 rules on one host x resource stores (x types, thorough)
    let universe = [
        "||foo.com^$redirect=noop.js:1",
        "||foo.com^$redirect-rule=noop.txt:1",
        "||foo.com^$redirect-rule=nooptext:2",
        "||foo.com^$redirect=1x1.gif",
        "@@||foo.com^$redirect-rule=noop.js",
        "@@||foo.com^$redirect=noop.txt:5",
        "||foo.com^$redirect-rule=perm.js:9",
        "||foo.com^$redirect=missing.js:-1",
    ];
    let full: Vec<Res> = vec![
        res("noop.js", &["noopjs"], "application/javascript", b"(function(){})()"),
        res("noop.txt", &["nooptext"], "text/plain", b""),
        res("1x1.gif", &[], "image/gif", &[0x47, 0x49, 0x46]),
        Res { permission: 1, ..res("perm.js", &[], "application/javascript", b"p()") },
    ];
    let stores: Vec<Vec<Res>> = vec![full.clone(), full[..1].to_vec(), full[1..].to_vec()];
    let types: &[&str] = if a.scale > 1 { &["script", "image", "document", "xhr"] } else { &["script"] };
    for mask in 0..256u32 {
        for (si, st) in stores.iter().enumerate() {
            if a.scale == 1 && si == 2 {
                continue;
            }
            for ty in types {
                let rules: Vec<String> = universe.iter().enumerate().filter(|(i, _)| mask & (1 << i) != 0).map(|(_, l)| l.to_string()).collect();
                all.push(Case { rules, store: st.clone(), tags: vec![], url: "https://foo.com/x.js".into(), source: "https://example.com/".into(), ty: ty.to_string(), optimize: mask % 2 == 0 });
            }
        }
    }
    sm.extra.insert("exhaustive_sweep".into(), json!(format!("all 256 subsets of {} rules on one host x {} stores x {} types", universe.len(), if a.scale > 1 { 3 } else { 2 }, types.len())));
    for (i, c) in all.into_iter().enumerate() {
        if !c.url.is_ascii() || c.url.contains('*') || c.url.starts_with("ws") {
            cs.stat("skipped_url_outside_domain");
            continue;
        }
        let Some(o) = eval(&c, i % 4 == 0) else { cs.stat("request_error"); continue };
        sm.oracle_evaluations += 1;
        if !o.scan_equals_delivery {
            cs.stat("scan_differs_from_bucket_lookup");
            if std::env::var("C13_DEBUG").is_ok() {
                eprintln!("SCANDIFF {}", c.json());
            }
        }
        if let Some((class, what)) = oracle(&c, &o) {
            sm.failure(class, &what, c.json());
        }
        let mut desc = c.json();
        desc["matching"] = json!(o.matching);
        desc["impl"] = json!({"redirect": o.got_redirect, "matched": o.got_matched, "important": o.got_important});
        cs.stat(if !o.supported { "unsupported_request" } else if o.matching.is_empty() { "no_matching_redirect_rule" } else if o.got_redirect.is_some() { "redirected" } else { "matching_but_no_redirect" });
        if o.got_redirect.is_some() && !o.got_matched {
            cs.stat("redirect_without_block");
        }
        if o.matching.iter().any(|m| m.0) {
            cs.stat("redirect_exception_matching");
        }
        if reference(o.supported, &o.matching, &c.store).len() > 1 {
            cs.stat("tie_between_resources_at_top_priority");
        }
        let expr = format!(
            "ostr_eqb (v_redirect (check_verdict {} (mk_block false false false false) (from_resources {}) {})) {}",
            cbool(o.supported),
            clist(&c.store, |x| x.coq()),
            clist(&o.matching, |m| format!("mk_rr {} {}", cbool(m.0), copt(&m.1, |s| hxs(s)))),
            copt(&o.got_redirect, |s| hxs(s))
        );
        cs.case(expr, desc, !o.matching.is_empty());
        for (line, mask, tagged, cat, in_red) in &o.shapes {
            if shape_seen.insert((*mask, *tagged)) {
                cs.stat("distinct_rule_shapes");
                cs.case(
                    format!("cat_eqb (category_of (mk_shape {} {})) {} && Bool.eqb (in_redirects (mk_shape {} {})) {}", cn(*mask), cbool(*tagged), cat, cn(*mask), cbool(*tagged), cbool(*in_red)),
                    json!({"rule": line, "mask": mask, "tagged": tagged, "category": cat, "in_redirects": in_red}),
                    mask & (1 << 26) != 0,
                );
            }
        }
    }
    // Rust's i32 parser (the function split_redirect_priority calls) vs the model's
    for _ in 0..(400 * a.scale) {
        let s = i32_stream(&mut r);
        let got = s.parse::<i32>().ok();
        if got.map(|x| x as i64) != spec_parse_i32(&s) {
            sm.failure(None, &format!("oracle's i32 grammar disagrees with str::parse::<i32> on {:?}", s), json!({"i32": s}));
        }
        cs.stat(if got.is_some() { "i32_ok" } else { "i32_err" });
        cs.case(
            format!("oz_eqb (parse_i32 {}) {}", hxs(&s), copt(&got, |v| format!("(zlit {} {})", cbool(*v < 0), cn((*v as i64).abs())))),
            json!({"i32_text": s, "parsed": got}),
            got.is_some(),
        );
    }
    cs.finish();
    sm.write(&a.out, &cs);
}
