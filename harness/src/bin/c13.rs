//! C13 — the redirect of a verdict is the data-URL of the best permitted matching redirect resource.
//! Correspondence: Engine::check_network_request(..).redirect vs the Gallina
//! `check_verdict`/`redirect_of` (C13_Model.v) on (resource list handed to use_resources, the
//! redirect rules that match per NetworkFilter::matches in the order check_all delivers them);
//! category assignment of Blocker::new vs `category_of`; Rust's `str::parse::<i32>` vs `parse_i32`.
//! Oracle: an independent Rust restatement (arg-max set over non-excepted candidates, resource
//! gate, blocking side) run on the same inputs.
//! Loading paths: every input is evaluated through the batch engine and along a second path
//! (empty Blocker + add_filter per rule, Blocker::new on a prefix + add_filter for the rest, in
//! several orders; resources through use_resources or one add_resource call each); `effective`
//! states which rules a path puts in force, the oracle and the model are applied to those, and the
//! verdict is compared with a batch engine over the same rules.  Sequences of add_resource calls
//! with rejected calls and re-used identifiers are compared with the model's from_resources /
//! add_resource and with `first successful add that declared the identifier` (run_add_seq).
use adblock::blocker::{Blocker, BlockerOptions, BlockerResult};
use adblock::filters::network::{NetworkFilter, NetworkFilterMaskHelper, NetworkMatchable};
use adblock::regex_manager::RegexManager;
use adblock::request::Request;
use adblock::resources::{MimeType, PermissionMask, Resource, ResourceStorage, ResourceType};
use adblock::Engine;
use implrun::*;
use serde_json::{json, Value};
use std::collections::{BTreeSet, HashSet};

// ------------------------------------------------------------------ resources
#[derive(Clone)]
struct Res {
    name: String,
    aliases: Vec<String>,
    template: bool,
    mime: String, // MIME string (ignored for templates)
    bytes: Vec<u8>,
    bad_base64: bool,
    deps: Vec<String>,
    permission: u8,
}

fn b64(data: &[u8]) -> String {
    const T: &[u8; 64] = b"ABCDEFGHIJKLMNOPQRSTUVWXYZabcdefghijklmnopqrstuvwxyz0123456789+/";
    let mut o = String::new();
    for ch in data.chunks(3) {
        let b = [ch[0], *ch.get(1).unwrap_or(&0), *ch.get(2).unwrap_or(&0)];
        let n = ((b[0] as u32) << 16) | ((b[1] as u32) << 8) | b[2] as u32;
        o.push(T[(n >> 18) as usize & 63] as char);
        o.push(T[(n >> 12) as usize & 63] as char);
        o.push(if ch.len() > 1 { T[(n >> 6) as usize & 63] as char } else { '=' });
        o.push(if ch.len() > 2 { T[n as usize & 63] as char } else { '=' });
    }
    o
}

impl Res {
    fn content(&self) -> String {
        if self.bad_base64 {
            "!!!not-base64".to_string()
        } else {
            b64(&self.bytes)
        }
    }
    fn textual(&self) -> bool {
        matches!(
            self.mime.as_str(),
            "application/javascript" | "fn/javascript" | "application/json" | "text/css" | "text/plain" | "text/html" | "text/xml"
        )
    }
    /// what add_resource validates for MIME kinds (base64 decodes; UTF-8 if textual)
    fn content_ok(&self) -> bool {
        !self.bad_base64 && (!self.textual() || std::str::from_utf8(&self.bytes).is_ok())
    }
    fn to_resource(&self) -> Resource {
        Resource {
            name: self.name.clone(),
            aliases: self.aliases.clone(),
            kind: if self.template { ResourceType::Template } else { ResourceType::Mime(MimeType::from(self.mime.as_str())) },
            content: self.content(),
            dependencies: self.deps.clone(),
            permission: PermissionMask::from_bits(self.permission),
        }
    }
    /// the resource as a resources file spells it
    fn to_json_text(&self) -> String {
        let kind = if self.template { "\"template\"".to_string() } else { format!("{{\"mime\":{}}}", serde_json::to_string(&self.mime).unwrap()) };
        format!("{{\"name\":{},\"aliases\":{},\"kind\":{},\"content\":{},\"dependencies\":{},\"permission\":{}}}",
            serde_json::to_string(&self.name).unwrap(), serde_json::to_string(&self.aliases).unwrap(), kind,
            serde_json::to_string(&self.content()).unwrap(), serde_json::to_string(&self.deps).unwrap(), self.permission)
    }
    fn json(&self) -> Value {
        json!({"name": self.name, "aliases": self.aliases, "template": self.template, "mime": self.mime, "bytes": self.bytes, "bad_base64": self.bad_base64, "deps": self.deps, "permission": self.permission})
    }
    fn from_json(v: &Value) -> Res {
        let strs = |x: &Value| -> Vec<String> { x.as_array().map(|a| a.iter().map(|s| s.as_str().unwrap_or("").to_string()).collect()).unwrap_or_default() };
        Res {
            name: v["name"].as_str().unwrap_or("").to_string(),
            aliases: strs(&v["aliases"]),
            template: v["template"].as_bool().unwrap_or(false),
            mime: v["mime"].as_str().unwrap_or("").to_string(),
            bytes: v["bytes"].as_array().map(|a| a.iter().map(|b| b.as_u64().unwrap_or(0) as u8).collect()).unwrap_or_default(),
            bad_base64: v["bad_base64"].as_bool().unwrap_or(false),
            deps: strs(&v["deps"]),
            permission: v["permission"].as_u64().unwrap_or(0) as u8,
        }
    }
    fn coq(&self) -> String {
        format!(
            "mk_res {} {} (kind_of_string {} \"{}\") {} {} {} {}",
            hxs(&self.name),
            cstrs(&self.aliases),
            cbool(self.template),
            self.mime,
            hxs(&self.content()),
            cbool(!self.deps.is_empty()),
            cbool(self.content_ok()),
            cn(self.permission)
        )
    }
}

fn res(name: &str, aliases: &[&str], mime: &str, bytes: &[u8]) -> Res {
    Res { name: name.into(), aliases: aliases.iter().map(|s| s.to_string()).collect(), template: false, mime: mime.into(), bytes: bytes.to_vec(), bad_base64: false, deps: vec![], permission: 0 }
}

/// how many use_resources calls precede the one that loads the case's store
fn prior_calls(c: &Case) -> usize {
    (c.url.len() + c.rules.len() + c.store.len()) % 3
}
/// what those earlier calls load: every identifier the pool knows, redirectable and unprivileged
fn prior_store(k: usize) -> Vec<Res> {
    let names: &[(&str, &[&str])] = &[("noop.js", &["noopjs", "noop"]), ("noop.txt", &["nooptext"]), ("1x1.gif", &["1x1-transparent.gif"]), ("fn.js", &["fnjs"]),
        ("perm.js", &["permjs"]), ("perm.txt", &[]), ("style.css", &["css"]), ("x", &["y:3"]), ("tmpl.js", &["tmpl"]), ("missing.js", &[]), ("deps.txt", &[]), ("bad.js", &["badjs"])];
    names.iter().map(|(n, a)| res(n, a, "text/plain", if k == 0 { b"old" } else { b"older" })).collect()
}

fn gen_store(r: &mut Rng) -> Vec<Res> {
    // sometimes nothing at all is loaded (by the last call)
    if r.chance(1, 12) {
        return vec![];
    }
    let mut pool: Vec<Res> = vec![
        res("noop.js", &["noopjs", "noop"], "application/javascript", b"(function(){})()"),
        res("noop.txt", &["nooptext"], "text/plain", b""),
        res("1x1.gif", &["1x1-transparent.gif"], "image/gif", &[0x47, 0x49, 0x46, 0x38, 0x39, 0x61, 0x01, 0x00, 0xff, 0xfe]),
        res("fn.js", &["fnjs"], "fn/javascript", b"function f(){}"),
        res("unknown.bin", &[], "application/x-unknown", &[0, 159, 146, 150]),
        res("style.css", &["css"], "text/css", b"a{}"),
        res("x", &["y:3"], "text/html", b"<p>"),
        // a script whose extension-less name is NOT one of its aliases (`$redirect=bare` names nothing)
        res("bare.js", &["barejs"], "application/javascript", b"bare()"),
        // one resource of every remaining redirectable MIME kind
        res("vmap.xml", &["noop-vmap1.0.xml"], "text/xml", b"<vmap/>"),
        res("empty.json", &[], "application/json", b"{}"),
        res("noop.mp4", &["mp4"], "video/mp4", &[0, 0, 0, 24]),
        res("noop.mp3", &[], "audio/mp3", &[255, 251]),
        res("2x2.png", &[], "image/png", &[137, 80, 78, 71]),
        res("noop.html", &[], "text/html", b"<!DOCTYPE html>"),
    ];
    pool.push(Res { template: true, ..res("tmpl.js", &["tmpl"], "", b"{{1}}") });
    pool.push(Res { permission: 1, ..res("perm.js", &["permjs"], "application/javascript", b"perm()") });
    pool.push(Res { permission: 128, ..res("perm.txt", &[], "text/plain", b"p") });
    let mut v = vec![];
    for p in pool {
        if r.chance(5, 6) {
            v.push(p);
        }
    }
    // deliberate collisions and rejected resources
    if r.chance(1, 4) {
        v.push(res("noopjs", &["other"], "text/plain", b"second")); // name collides with an alias
    }
    if r.chance(1, 4) {
        v.push(res("second.txt", &["noop.txt", "sec"], "text/plain", b"alias collides with a name"));
    }
    if r.chance(1, 5) {
        v.push(res("noop.js", &[], "text/plain", b"duplicate name"));
    }
    if r.chance(1, 5) {
        v.push(Res { bad_base64: true, ..res("bad.js", &["badjs"], "application/javascript", b"") });
    }
    if r.chance(1, 5) {
        v.push(res("latin1.js", &[], "application/javascript", &[0xe9, 0x28])); // textual but not UTF-8
    }
    if r.chance(1, 5) {
        v.push(Res { deps: vec!["fn.js".into()], ..res("deps.txt", &[], "text/plain", b"d") });
    }
    if r.chance(1, 5) {
        v.push(Res { deps: vec!["fn.js".into()], ..res("deps.js", &["depsjs"], "application/javascript", b"d()") });
    }
    if r.chance(1, 6) {
        v.push(Res { bad_base64: true, template: true, ..res("badtmpl.js", &[], "", b"") }); // templates are not validated
    }
    if r.chance(1, 8) {
        v.push(res("self.txt", &["self.txt", "selfalias"], "text/plain", b"own name as alias"));
    }
    for i in (1..v.len()).rev() {
        let j = r.below(i + 1);
        v.swap(i, j);
    }
    v
}

/// identifiers of the add_resource sequences (few, so that names and aliases collide all the time);
/// `y:3` looks like a priority suffix and can only be reached by a direct lookup
const SEQ_IDS: &[&str] = &["a.js", "b.js", "c.txt", "d.gif", "e", "f", "g.js", "y:3"];
/// identifiers the redirect rules of the main loop name (see NAMES)
const RULE_IDS: &[&str] = &["noop.js", "noopjs", "noop", "noop.txt", "nooptext", "1x1.gif", "style.css", "other", "sec"];

/// A sequence of add_resource calls.  Calls collide with what is stored on the name, on the first
/// alias or on a later alias of a multi-alias resource (directed: all other identifiers of the call
/// are fresh, so the call is rejected for that one identifier only), or are rejected for their
/// content; the calls after a rejected one re-use its name and aliases as names and as aliases.
/// Every call carries its own content, so a lookup tells which call it answers with.
fn gen_add_seq(r: &mut Rng, pool: &[&str]) -> Vec<Res> {
    let n = r.range(3, 9);
    let mut seq: Vec<Res> = vec![];
    let mut reuse: Vec<String> = vec![]; // identifiers of the most recent rejected call
    let mut fresh = 0usize;
    for i in 0..n {
        let acc = spec_accepts(&seq);
        let taken: Vec<String> = seq.iter().zip(acc.iter()).filter(|p| *p.1).flat_map(|p| std::iter::once(p.0.name.clone()).chain(p.0.aliases.iter().cloned())).collect();
        let mut new_id = |r: &mut Rng| {
            // mostly an identifier nobody holds
            if r.chance(1, 3) {
                fresh += 1;
                format!("u{}", fresh)
            } else {
                let free: Vec<&&str> = pool.iter().filter(|p| !taken.iter().any(|t| t == **p)).collect();
                if free.is_empty() { fresh += 1; format!("u{}", fresh) } else { free[r.below(free.len())].to_string() }
            }
        };
        let (name, aliases): (String, Vec<String>) = if !reuse.is_empty() && r.chance(2, 3) {
            // re-use what the rejected call declared: as name, as aliases, mixed with other identifiers
            let mut ids: Vec<String> = reuse.clone();
            for j in (1..ids.len()).rev() {
                let k = r.below(j + 1);
                ids.swap(j, k);
            }
            ids.truncate(r.range(1, 3));
            if r.chance(1, 3) {
                ids.push(new_id(r));
            }
            if r.chance(1, 2) {
                ids.reverse();
            }
            let name = ids.remove(0);
            (name, ids)
        } else if !taken.is_empty() && r.chance(1, 2) {
            // directed collision at exactly one position
            let hit = taken[r.below(taken.len())].clone();
            let na = r.range(0, 4);
            let pos = r.below(na + 1); // 0 = name, 1 = first alias, >1 = later alias
            let mut ids: Vec<String> = (0..=na).map(|_| new_id(r)).collect();
            ids[pos] = hit;
            let name = ids.remove(0);
            (name, ids)
        } else {
            let name = if r.chance(1, 4) { new_id(r) } else { r.pick(pool).to_string() };
            let na = r.pick(&[0usize, 1, 1, 2, 2, 3, 4]);
            let mut al: Vec<String> = (0..na).map(|_| if r.chance(1, 3) { new_id(r) } else { r.pick(pool).to_string() }).collect();
            if r.chance(1, 12) {
                al.push(name.clone()); // own name as alias
            }
            if r.chance(1, 12) && !al.is_empty() {
                al.push(al[0].clone()); // the same alias twice
            }
            (name, al)
        };
        let mime = r.pick(&["text/plain", "text/plain", "application/javascript", "application/javascript", "image/gif", "text/css", "application/x-unknown", "fn/javascript"]);
        let mut x = Res { name: name.clone(), aliases, template: false, mime: mime.into(), bytes: format!("add#{} {}", i, name).into_bytes(), bad_base64: false, deps: vec![], permission: 0 };
        match r.below(16) {
            0 => x.bad_base64 = true,                                     // rejected for its content
            1 => x.deps = vec!["a.js".into()],                             // rejected unless a javascript type
            2 => { x.bytes = vec![0xe9, 0x28, i as u8] }                   // rejected if the type is textual
            3 => x.permission = 1,                                         // stored, never served
            4 => { x.template = true; x.mime = String::new() }             // stored, never served
            _ => {}
        }
        seq.push(x);
        let ok = *spec_accepts(&seq).last().unwrap();
        if ok {
            reuse.clear();
        } else {
            let x = seq.last().unwrap();
            reuse = std::iter::once(x.name.clone()).chain(x.aliases.iter().cloned()).filter(|i| !taken.iter().any(|t| t == i)).collect();
            reuse.dedup();
        }
    }
    seq
}

/// why a call of a sequence is rejected / what an accepted call re-uses (generator statistics)
fn classify_adds(seq: &[Res]) -> Vec<&'static str> {
    let acc = spec_accepts(seq);
    let mut taken: HashSet<String> = HashSet::new();
    let mut rejected_ids: HashSet<String> = HashSet::new();
    let mut out = vec![];
    for (x, ok) in seq.iter().zip(acc.iter()) {
        let ids: Vec<String> = std::iter::once(x.name.clone()).chain(x.aliases.iter().cloned()).collect();
        if *ok {
            out.push(if ids.iter().any(|i| rejected_ids.contains(i)) { "seq_accepted_reusing_identifiers_of_a_rejected_add" } else { "seq_accepted" });
            taken.extend(ids);
        } else {
            out.push(match ids.iter().position(|i| taken.contains(i)) {
                Some(0) => "seq_rejected_collision_on_name",
                Some(1) => "seq_rejected_collision_on_first_alias",
                Some(_) => "seq_rejected_collision_on_later_alias",
                None => "seq_rejected_for_content_or_dependencies",
            });
            rejected_ids.extend(ids.into_iter().filter(|i| !taken.contains(i)));
        }
    }
    out
}

/// Runs a sequence of add_resource calls on the crate and states the property on it:
/// every call answers Ok exactly when the specification accepts it; after EVERY call (accepted or
/// rejected) each identifier that occurs anywhere in the sequence resolves to the resource of the first
/// successful add that declared it; the same through from_resources, and through an Engine
/// (add_resource + one redirect-rule per identifier).  Returns (Ok flags, final lookups, state after
/// the call `probe`, first failure).
fn run_add_seq(seq: &[Res], idents: &[String], probe: usize) -> (Vec<bool>, Vec<Option<String>>, Vec<Option<String>>, Option<String>) {
    let want = spec_accepts(seq);
    let mut fail: Option<String> = None;
    let mut st = ResourceStorage::default();
    let mut flags = vec![];
    let mut at_probe = vec![];
    for (i, x) in seq.iter().enumerate() {
        let before: Vec<Option<String>> = idents.iter().map(|id| st.get_redirect_resource(id)).collect();
        let ok = st.add_resource(x.to_resource()).is_ok();
        flags.push(ok);
        if ok != want[i] && fail.is_none() {
            fail = Some(format!("add_resource call #{} (name {:?}, aliases {:?}) answered {} but the specification says {}", i, x.name, x.aliases, if ok { "Ok" } else { "Err" }, if want[i] { "accepted" } else { "rejected" }));
        }
        let after: Vec<Option<String>> = idents.iter().map(|id| st.get_redirect_resource(id)).collect();
        if !ok && after != before && fail.is_none() {
            let k = (0..idents.len()).find(|k| after[*k] != before[*k]).unwrap();
            fail = Some(format!("rejected add_resource call #{} changed the answer for {:?} from {:?} to {:?}", i, idents[k], before[k], after[k]));
        }
        for (k, id) in idents.iter().enumerate() {
            let spec = spec_gate(&seq[..=i], id);
            if after[k] != spec && fail.is_none() {
                fail = Some(format!("after call #{} get_redirect_resource({:?}) = {:?} but the first successful add declaring it gives {:?}", i, id, after[k], spec));
            }
        }
        if i == probe {
            at_probe = after.clone();
        }
    }
    let last: Vec<Option<String>> = idents.iter().map(|id| st.get_redirect_resource(id)).collect();
    let whole = ResourceStorage::from_resources(seq.iter().map(|x| x.to_resource()));
    for (k, id) in idents.iter().enumerate() {
        let w = whole.get_redirect_resource(id);
        if w != last[k] && fail.is_none() {
            fail = Some(format!("from_resources answers {:?} for {:?} but the sequence of add_resource calls {:?}", w, id, last[k]));
        }
    }
    // through an engine: one redirect-rule per identifier, resources added one call at a time
    let rules: Vec<String> = idents.iter().enumerate().map(|(k, id)| format!("/p{}q/$redirect-rule={}", k, id)).collect();
    let mut engine = Engine::from_rules_parametrised(rules.iter(), Default::default(), true, false);
    for x in seq {
        let _ = engine.add_resource(x.to_resource());
    }
    for (k, id) in idents.iter().enumerate() {
        if id.is_empty() || id.contains(',') || id.contains('$') {
            continue;
        }
        let Ok(req) = Request::new(&format!("https://foo.com/p{}q/x", k), "https://example.com/", "script") else { continue };
        let got = engine.check_network_request(&req).redirect;
        let spec = spec_gate(seq, &spec_split(id).0);
        if got != spec && fail.is_none() {
            fail = Some(format!("engine redirect for $redirect-rule={} is {:?} but the specification gives {:?}", id, got, spec));
        }
    }
    (flags, last, at_probe, fail)
}

fn seq_idents(seq: &[Res]) -> Vec<String> {
    let mut v: Vec<String> = vec![];
    for x in seq {
        for i in std::iter::once(&x.name).chain(x.aliases.iter()) {
            if !v.contains(i) {
                v.push(i.clone());
            }
        }
    }
    v.push("missing.js".into());
    v
}

const NAMES: &[&str] = &[
    "noop.js", "noop.js", "noop.js", "noop.txt", "noop.txt", "1x1.gif", "1x1.gif", "style.css", "noopjs", "noopjs", "noop.js", "noop.js", "noopjs", "noop", "noop.txt", "nooptext", "1x1.gif", "1x1-transparent.gif", "fn.js", "tmpl.js", "tmpl",
    "perm.js", "permjs", "perm.txt", "missing.js", "unknown.bin", "style.css", "other", "sec", "second.txt", "bad.js", "latin1.js",
    "deps.txt", "deps.js", "badtmpl.js", "x", "y", "y:3", "self.txt", "selfalias", "NOOP.JS",
    "bare", "bare", "bare.js", "barejs", "vmap", "vmap.xml", "noop-vmap1.0.xml", "empty.json", "noop.mp4", "mp4", "noop.mp3", "2x2.png", "noop.html",
];
const SUFFIXES: &[&str] = &[
    "", "", "", "", "", ":10", ":10", ":-1", ":1", ":1", ":2", ":10", ":-1", ":x", ":", ":+3", ":2147483648", ":2147483647", ":-2147483648", ":-2147483649", ":007", ":1 ",
    ":1:2", ":+", ":-", ":1e3", ":\u{ff11}", ": 2147483648", ":0", ":5", ":5", ":-0", ":+-1", ":00000000000000000000012", ":99999999999999999999",
    ":3", ":3",
];
const RHOSTS: &[&str] = &["foo.com", "ads.net", "example.com", "sub.example.com"];
const PATHS: &[&str] = &["ads", "foo", "banner", "ads/foo", "x.js", "pixel.gif"];

fn pat(r: &mut Rng) -> String {
    match r.below(9) {
        0 | 1 | 2 => format!("||{}^", r.pick(RHOSTS)),
        3 => format!("||{}/{}", r.pick(RHOSTS), r.pick(PATHS)),
        4 | 5 => format!("/{}", r.pick(PATHS)),
        6 => "*".to_string(),
        7 => format!("|https://{}/", r.pick(RHOSTS)),
        _ => gen::pattern(r),
    }
}

fn redirect_rule(r: &mut Rng) -> String {
    let exception = r.chance(1, 4);
    let opt = if exception {
        if r.chance(2, 3) { "redirect-rule" } else { "redirect" }
    } else if r.chance(1, 2) {
        "redirect"
    } else {
        "redirect-rule"
    };
    let mut opts = vec![format!("{}={}{}", opt, r.pick(NAMES), r.pick(SUFFIXES))];
    if r.chance(1, 5) {
        opts.push((r.pick(&["script", "image", "~script", "xhr", "subdocument", "document", "~image", "css"])).to_string());
    }
    if r.chance(1, 8) {
        opts.push(gen::domain_opt(r));
    }
    if r.chance(1, 10) {
        opts.push((r.pick(&["third-party", "~third-party", "1p"])).to_string());
    }
    if r.chance(1, 12) {
        opts.push("important".into());
    }
    if r.chance(1, 16) {
        opts.push(format!("tag={}", r.pick(gen::TAGS)));
    }
    if r.chance(1, 30) {
        opts.push("badfilter".into());
    }
    if r.chance(1, 30) {
        opts.push("generichide".into());
    }
    if r.chance(1, 40) {
        opts.push("csp=a".into()); // rejected: two modifier options
    }
    if r.chance(1, 3) {
        let i = r.below(opts.len());
        let o = opts.remove(i);
        opts.push(o);
    }
    format!("{}{}${}", if exception { "@@" } else { "" }, pat(r), opts.join(","))
}

fn gen_rules(r: &mut Rng) -> Vec<String> {
    let n = r.range(1, 5);
    let mut v: Vec<String> = (0..n).map(|_| redirect_rule(r)).collect();
    if r.chance(1, 3) {
        // the same rule under the other option / as an exception / with badfilter
        let i = r.below(v.len());
        let d = v[i].clone();
        v.push(match r.below(4) {
            0 => d,
            1 => format!("@@{}", d.trim_start_matches("@@")),
            2 => format!("{},badfilter", d),
            _ => d.replace("redirect=", "redirect-rule="),
        });
    }
    if r.chance(1, 3) {
        v.push(gen::rule(r, false));
    }
    if r.chance(1, 4) {
        v.push(pat(r)); // plain blocking rule
    }
    if r.chance(1, 4) {
        v.push(format!("@@{}", pat(r))); // plain exception: unblocks, must not touch the redirect
    }
    if r.chance(1, 8) {
        v.push(format!("{}$important", pat(r)));
    }
    for i in (1..v.len()).rev() {
        let j = r.below(i + 1);
        v.swap(i, j);
    }
    v
}

fn gen_url(r: &mut Rng) -> String {
    let scheme = if r.chance(1, 40) { "ftp" } else { r.pick(&["https", "https", "http"]) };
    let mut s = format!("{}://{}/", scheme, r.pick(RHOSTS));
    match r.below(5) {
        0 => {}
        1 | 2 => s.push_str(r.pick(PATHS)),
        3 => {
            let p = r.pick(PATHS);
            s.push_str(&format!("{}/{}", p, p)); // repeated tokens: rules delivered twice
        }
        _ => s.push_str(&gen::segs(r, 1, 3).replace('^', "/").replace('*', "-")),
    }
    s
}

// ------------------------------------------------------------------ case
#[derive(Clone)]
struct Case {
    rules: Vec<String>,
    store: Vec<Res>,
    tags: Vec<String>,
    url: String,
    source: String,
    ty: String,
    optimize: bool,
    /// Loading path of the rules.  `None`: the whole list through Engine::from_rules_parametrised.
    /// `Some(k)`: the first k rules (in the order of `rules`) through Blocker::new, every further
    /// rule through one Blocker::add_filter call, in list order (k = 0: empty Blocker + add_filter only).
    batch: Option<usize>,
    /// Loading path of the resources.  false: use_resources / ResourceStorage::from_resources on the
    /// whole list; true: one add_resource call per resource, in list order (rejected calls included).
    store_by_add: bool,
}
impl Case {
    fn json(&self) -> Value {
        json!({"rules": self.rules, "resources": self.store.iter().map(|x| x.json()).collect::<Vec<_>>(), "tags": self.tags,
               "url": self.url, "source": self.source, "type": self.ty, "optimize": self.optimize,
               "load": {"batch": self.batch, "store_by_add": self.store_by_add}})
    }
    fn from_json(v: &Value) -> Case {
        let strs = |x: &Value| -> Vec<String> { x.as_array().map(|a| a.iter().map(|s| s.as_str().unwrap_or("").to_string()).collect()).unwrap_or_default() };
        Case {
            rules: strs(&v["rules"]),
            store: v["resources"].as_array().map(|a| a.iter().map(Res::from_json).collect()).unwrap_or_default(),
            tags: strs(&v["tags"]),
            url: v["url"].as_str().unwrap_or("").to_string(),
            source: v["source"].as_str().unwrap_or("").to_string(),
            ty: v["type"].as_str().unwrap_or("").to_string(),
            optimize: v["optimize"].as_bool().unwrap_or(true),
            batch: v["load"]["batch"].as_u64().map(|k| k as usize),
            store_by_add: v["load"]["store_by_add"].as_bool().unwrap_or(false),
        }
    }
}

struct Outcome {
    supported: bool,
    /// matching untagged redirect rules in check_all delivery order: (is_exception, option, line)
    matching: Vec<(bool, Option<String>, String)>,
    scan_equals_delivery: bool,
    got_redirect: Option<String>,
    got_matched: bool,
    got_important: bool,
    /// blocking side by per-rule scan
    redirect_opt_matches: bool,        // an active `redirect=` rule (not exception/generichide) matches
    exception_matches: bool,           // an active rule of the exceptions category matches
    other_blocker_matches: bool,       // an active blocking rule that is not a pure redirect-rule matches
    rr_important_matches: bool,        // a matching redirect-rule + important rule (must not block)
    /// like `matching`, plus the matching redirect rules whose tag is ENABLED (the crate never serves them)
    matching_with_enabled_tags: Vec<(bool, Option<String>, String)>,
    tagged_redirect_opt_matches: bool, // a matching `redirect=` rule with an enabled tag (known class)
    shapes: Vec<(String, u32, bool, &'static str, bool, bool)>, // line, mask, tagged, category, in redirects, entered through add_filter
    /// (redirect, matched, important) of a batch engine over the rules in force (add_filter paths only)
    batch_twin: Option<(Option<String>, bool, bool)>,
    /// first add_filter / add_resource answer contradicting the expectation
    misbehaviour: Option<String>,
    /// add_filter calls of the path: (line, expected answer, is redirect rule, is exception, blocks too)
    adds: Vec<(String, AddAnswer, bool, bool, bool)>,
    /// (added rule, redirect, matched) of the same list plus one plain exception / blocking / important rule
    variants: Vec<(String, Option<String>, bool)>,
}

fn active_tag(f: &NetworkFilter, tags: &[String]) -> bool {
    match adblock::verif_hooks::filter_tag(f) {
        None => true,
        Some(t) => tags.iter().any(|x| x == t),
    }
}

fn parse_line(l: &str) -> Option<(String, NetworkFilter)> {
    match adblock::lists::parse_filter(l, true, Default::default()) {
        Ok(adblock::lists::ParsedFilter::Network(f)) => Some((l.trim().to_string(), f)),
        _ => None,
    }
}

/// What one Blocker::add_filter call of the loading path has to answer.
#[derive(Clone, Copy, PartialEq, Debug)]
enum AddAnswer {
    Accepted,
    RefusedBadfilter,
    RefusedDuplicate,
}

/// The rule set a loading path puts in force (decided here, not by the answers of add_filter):
/// the batch part is what Blocker::new keeps of it ($badfilter rules cancel inside the batch only);
/// an add_filter call is refused iff the rule is a $badfilter rule or the very same line is in force.
struct Effective {
    /// rules in force, in the order they entered the blocker
    live: Vec<(String, NetworkFilter)>,
    /// how many of `live` came through the batch constructor
    from_batch: usize,
    /// one entry per parsable rule of the add_filter part: line, rule, expected answer
    adds: Vec<(String, NetworkFilter, AddAnswer)>,
}

fn effective(c: &Case) -> Effective {
    let k = c.batch.unwrap_or(c.rules.len()).min(c.rules.len());
    let parsed: Vec<(String, NetworkFilter)> = c.rules[..k].iter().filter_map(|l| parse_line(l)).collect();
    let bad_ids: HashSet<u64> = parsed.iter().filter(|(_, f)| f.is_badfilter()).map(|(_, f)| f.get_id_without_badfilter()).collect();
    let mut live: Vec<(String, NetworkFilter)> = parsed.into_iter().filter(|(_, f)| !f.is_badfilter() && !bad_ids.contains(&f.get_id())).collect();
    let from_batch = live.len();
    let mut adds = vec![];
    for l in &c.rules[k..] {
        let Some((line, f)) = parse_line(l) else { continue };
        let ans = if f.is_badfilter() {
            AddAnswer::RefusedBadfilter
        } else if live.iter().any(|x| x.0 == line) {
            AddAnswer::RefusedDuplicate
        } else {
            AddAnswer::Accepted
        };
        adds.push((line.clone(), f.clone(), ans));
        if ans == AddAnswer::Accepted {
            live.push((line, f));
        }
    }
    Effective { live, from_batch, adds }
}

enum Loaded {
    Eng(Engine),
    Blk(Blocker, ResourceStorage),
}
impl Loaded {
    fn check(&self, req: &Request) -> BlockerResult {
        match self {
            Loaded::Eng(e) => e.check_network_request(req),
            Loaded::Blk(b, rs) => b.check(req, rs),
        }
    }
    fn blocker(&self) -> &Blocker {
        match self {
            Loaded::Eng(e) => e.verif_blocker(),
            Loaded::Blk(b, _) => b,
        }
    }
}

struct LoadLog {
    /// did the i-th add_filter call of `Effective::adds` answer Ok
    add_ok: Vec<bool>,
    /// first answer of add_filter / add_resource that contradicts the expectation
    misbehaviour: Option<String>,
}

/// Loads rules, resources and tags along the paths the case names; `extra` is one more rule loaded last
/// (appended to the list on the batch path, one more add_filter call otherwise).
fn load(c: &Case, eff: &Effective, extra: Option<&str>, optimize: bool) -> (Loaded, LoadLog) {
    let mut log = LoadLog { add_ok: vec![], misbehaviour: None };
    let tags: Vec<&str> = c.tags.iter().map(|s| s.as_str()).collect();
    let want_res = spec_accepts(&c.store);
    let note_res = |i: usize, ok: bool, log: &mut LoadLog| {
        if ok != want_res[i] && log.misbehaviour.is_none() {
            log.misbehaviour = Some(format!("add_resource call #{} ({:?}) answered {} but the specification says {}", i, c.store[i].name, if ok { "Ok" } else { "Err" }, if want_res[i] { "accepted" } else { "rejected" }));
        }
    };
    match c.batch {
        None => {
            let mut rules = c.rules.clone();
            rules.extend(extra.map(|s| s.to_string()));
            let mut engine = Engine::from_rules_parametrised(rules.iter(), Default::default(), true, optimize);
            if c.store_by_add {
                for (i, x) in c.store.iter().enumerate() {
                    let ok = engine.add_resource(x.to_resource()).is_ok();
                    note_res(i, ok, &mut log);
                }
            } else {
                // use_resources REPLACES the store: 0-2 earlier calls (decided by the case itself, so a
                // replay repeats them) load every identifier of the pool as an unprivileged text
                // resource; only the last call may show in the answers
                for k in 0..prior_calls(c) {
                    engine.use_resources(prior_store(k).iter().map(|x| x.to_resource()));
                }
                // a quarter of the stores reach the engine in their documented JSON form (the text a
                // resources file holds), written by hand here and read back with serde
                if (c.url.len() + c.store.len()) % 4 == 1 {
                    let text = format!("[{}]", c.store.iter().map(|x| x.to_json_text()).collect::<Vec<_>>().join(","));
                    match serde_json::from_str::<Vec<Resource>>(&text) {
                        Ok(v) => engine.use_resources(v),
                        Err(e) => { log.misbehaviour = Some(format!("the JSON form of the store does not load: {}", e)); engine.use_resources(c.store.iter().map(|x| x.to_resource())) }
                    }
                } else {
                    engine.use_resources(c.store.iter().map(|x| x.to_resource()));
                }
            }
            engine.use_tags(&tags);
            (Loaded::Eng(engine), log)
        }
        Some(k) => {
            let k = k.min(c.rules.len());
            let prefix: Vec<NetworkFilter> = c.rules[..k].iter().filter_map(|l| parse_line(l)).map(|x| x.1).collect();
            let mut b = Blocker::new(prefix, &BlockerOptions { enable_optimizations: optimize });
            for (line, f, want) in &eff.adds {
                let got = b.add_filter(f.clone());
                log.add_ok.push(got.is_ok());
                let wrong = match want {
                    AddAnswer::Accepted => got.is_err(),
                    AddAnswer::RefusedBadfilter => got.is_ok(),
                    // filter_exists is best effort (an optimised bucket may hide a duplicate): a second copy is harmless
                    AddAnswer::RefusedDuplicate => false,
                };
                if wrong && log.misbehaviour.is_none() {
                    log.misbehaviour = Some(format!("add_filter({:?}) answered {:?}, expected {:?}", line, got, want));
                }
            }
            if let Some((_, f)) = extra.and_then(parse_line) {
                let _ = b.add_filter(f);
            }
            b.use_tags(&tags);
            let rs = if c.store_by_add {
                let mut rs = ResourceStorage::default();
                for (i, x) in c.store.iter().enumerate() {
                    let ok = rs.add_resource(x.to_resource()).is_ok();
                    note_res(i, ok, &mut log);
                }
                rs
            } else {
                ResourceStorage::from_resources(c.store.iter().map(|x| x.to_resource()))
            };
            (Loaded::Blk(b, rs), log)
        }
    }
}

fn eval(c: &Case, want_shapes: bool) -> Option<Outcome> {
    let req = Request::new(&c.url, &c.source, &c.ty).ok()?;
    implrun::net::register_request(&req, &c.url, &c.source, &c.ty);
    let eff = effective(c);
    let (loaded, log) = load(c, &eff, None, c.optimize);
    let res = loaded.check(&req);
    let live: Vec<&(String, NetworkFilter)> = eff.live.iter().collect();

    // per-rule scan
    let mut scan: Vec<(bool, Option<String>, String)> = vec![];
    let (mut redirect_opt_matches, mut exception_matches, mut other_blocker_matches, mut rr_important_matches) = (false, false, false, false);
    let mut enabled_tagged: Vec<(bool, Option<String>, String)> = vec![];
    let mut tagged_redirect_opt_matches = false;
    for (line, f) in live.iter().map(|x| (&x.0, &x.1)) {
        // (the crate's matcher, cross-checked against the reading of the rule text)
        if !implrun::net::rule_matches(f, &req) {
            continue;
        }
        let tagged = adblock::verif_hooks::filter_tag(f).is_some();
        if f.is_redirect() && !tagged {
            scan.push((f.is_exception(), option_value(line, &["redirect", "redirect-rule"]), line.clone()));
        }
        if f.is_redirect() && tagged && active_tag(f, &c.tags) {
            enabled_tagged.push((f.is_exception(), option_value(line, &["redirect", "redirect-rule"]), line.clone()));
            if !f.is_exception() && !f.is_generic_hide() && f.also_block_redirect() && !f.is_important() {
                tagged_redirect_opt_matches = true;
            }
        }
        if f.is_csp() || f.is_removeparam() || f.is_generic_hide() {
            continue;
        }
        if f.is_exception() {
            if active_tag(f, &c.tags) {
                exception_matches = true;
            }
            continue;
        }
        let pure_redirect_rule = f.is_redirect() && !f.also_block_redirect();
        // `filters` is probed with no tags; `importants` and the tagged list with the enabled tags
        let active = if f.is_important() { active_tag(f, &c.tags) } else if f.is_redirect() { !tagged } else { active_tag(f, &c.tags) };
        if !active {
            continue;
        }
        if pure_redirect_rule {
            if f.is_important() {
                rr_important_matches = true;
            }
            continue;
        }
        other_blocker_matches = true;
        if f.is_redirect() {
            redirect_opt_matches = true;
        }
    }

    // delivery order: a NetworkFilterList built the way the loading path builds `redirects`
    // (Blocker::new for the batch part, then one add_filter per accepted run-time rule)
    let redirect_filters: Vec<NetworkFilter> = eff.live[..eff.from_batch].iter().filter(|(_, f)| f.is_redirect()).map(|(_, f)| f.clone()).collect();
    let mut replica = adblock::verif_hooks::FilterList::new(redirect_filters, c.optimize);
    for ((_, f, _), ok) in eff.adds.iter().zip(log.add_ok.iter()) {
        if *ok && f.is_redirect() {
            replica.add_filter(f.clone());
        }
    }
    let mut rm = RegexManager::default();
    let delivered = replica.check_all(&req, &HashSet::new(), &mut rm);
    let delivered_lines: BTreeSet<String> = delivered.iter().filter_map(|d| d.raw_line.clone()).collect();
    let scan_lines: BTreeSet<String> = scan.iter().map(|x| x.2.clone()).collect();
    let scan_equals_delivery = delivered_lines == scan_lines;
    let matching = if scan_equals_delivery {
        delivered
            .iter()
            .map(|d| {
                let l = d.raw_line.clone().unwrap_or_default();
                let s = scan.iter().find(|x| x.2 == l).unwrap();
                (s.0, s.1.clone(), l)
            })
            .collect()
    } else {
        scan
    };

    let mut matching_with_enabled_tags = matching.clone();
    matching_with_enabled_tags.extend(enabled_tagged);

    let mut shapes = vec![];
    if want_shapes {
        // the lists of an unoptimised blocker loaded along the same path
        let (plain, _) = load(c, &eff, None, false);
        let dump = adblock::verif_hooks::dump_blocker(plain.blocker());
        for (idx, (line, f)) in live.iter().map(|x| (&x.0, &x.1)).enumerate() {
            let mut cat = "CatNowhere";
            let mut in_redirects = false;
            for (name, buckets) in &dump.lists {
                let here = buckets.iter().any(|(_, b)| b.iter().any(|d| d.raw_line.as_deref() == Some(line.as_str())));
                if !here {
                    continue;
                }
                match *name {
                    "redirects" => in_redirects = true,
                    "csp" => cat = "CatCsp",
                    "removeparam" => cat = "CatRemoveparam",
                    "generic_hide" => cat = "CatGenericHide",
                    "exceptions" => cat = "CatExceptions",
                    "importants" => cat = "CatImportants",
                    "filters" => cat = "CatFilters",
                    _ => {}
                }
            }
            if dump.tagged_filters_all.iter().any(|d| d.raw_line.as_deref() == Some(line.as_str())) {
                cat = "CatTagged";
            }
            shapes.push((line.clone(), adblock::verif_hooks::dump_filter(f).mask, adblock::verif_hooks::filter_tag(f).is_some(), cat, in_redirects, idx >= eff.from_batch));
        }
    }

    let mut variants = vec![];
    for extra in [format!("@@||{}^", req.hostname), format!("||{}^", req.hostname), format!("||{}^$important", req.hostname)] {
        let (l2, _) = load(c, &eff, Some(&extra), c.optimize);
        let r2 = l2.check(&req);
        variants.push((extra, r2.redirect, r2.matched));
    }

    // the same rules in force handed to a batch engine (same resources through use_resources, same tags)
    let batch_twin = c.batch.map(|_| {
        let twin = Case { rules: eff.live.iter().map(|x| x.0.clone()).collect(), store: c.store.clone(), tags: c.tags.clone(), url: c.url.clone(), source: c.source.clone(), ty: c.ty.clone(), optimize: c.optimize, batch: None, store_by_add: false };
        let te = effective(&twin);
        let (l, _) = load(&twin, &te, None, c.optimize);
        let r = l.check(&req);
        (r.redirect, r.matched, r.important)
    });
    let adds = eff.adds.iter().map(|(l, f, a)| (l.clone(), *a, f.is_redirect(), f.is_exception(), f.also_block_redirect())).collect();

    Some(Outcome {
        batch_twin,
        misbehaviour: log.misbehaviour,
        adds,
        variants,
        supported: req.is_supported,
        matching,
        scan_equals_delivery,
        got_redirect: res.redirect,
        got_matched: res.matched,
        got_important: res.important,
        redirect_opt_matches,
        exception_matches,
        other_blocker_matches,
        rr_important_matches,
        matching_with_enabled_tags,
        tagged_redirect_opt_matches,
        shapes,
    })
}

// ------------------------------------------------------------------ independent specification
fn spec_parse_i32(s: &str) -> Option<i64> {
    let b = s.as_bytes();
    let (neg, digits) = match b.first() {
        Some(b'-') => (true, &b[1..]),
        Some(b'+') => (false, &b[1..]),
        _ => (false, b),
    };
    if digits.is_empty() || !digits.iter().all(|c| c.is_ascii_digit()) {
        return None;
    }
    let mut v: i64 = 0;
    for d in digits {
        v = v * 10 + (d - b'0') as i64;
        if v > (1 << 40) {
            return None;
        }
    }
    let v = if neg { -v } else { v };
    if v < -(1 << 31) || v > (1 << 31) - 1 {
        None
    } else {
        Some(v)
    }
}
fn spec_split(s: &str) -> (String, i64) {
    if let Some((name, suffix)) = s.rsplit_once(':') {
        if let Some(p) = spec_parse_i32(suffix) {
            return (name.to_string(), p);
        }
    }
    (s.to_string(), 0)
}
fn spec_mime_name(m: &str) -> &'static str {
    match m {
        "text/css" => "text/css",
        "image/gif" => "image/gif",
        "text/html" => "text/html",
        "application/javascript" => "application/javascript",
        "application/json" => "application/json",
        "audio/mp3" => "audio/mp3",
        "video/mp4" => "video/mp4",
        "image/png" => "image/png",
        "text/plain" => "text/plain",
        "text/xml" => "text/xml",
        "fn/javascript" => "fn/javascript",
        _ => "application/octet-stream",
    }
}
/// which add_resource calls of a sequence succeed: the resource is well-formed (a template, or MIME
/// content that decodes - as UTF-8 where the type is textual - with dependencies only on the two
/// javascript types) and none of its identifiers (name, aliases) was declared by an earlier SUCCESSFUL call
fn spec_accepts(seq: &[Res]) -> Vec<bool> {
    let mut taken: HashSet<&str> = HashSet::new();
    let mut out = vec![];
    for x in seq {
        let valid = x.template || (x.content_ok() && (x.deps.is_empty() || matches!(x.mime.as_str(), "application/javascript" | "fn/javascript")));
        let idents: Vec<&str> = std::iter::once(x.name.as_str()).chain(x.aliases.iter().map(|a| a.as_str())).collect();
        let ok = valid && !idents.iter().any(|i| taken.contains(i));
        if ok {
            taken.extend(idents);
        }
        out.push(ok);
    }
    out
}
/// the resource an identifier denotes: that of the FIRST successful add that declared it as name or alias
fn spec_lookup<'a>(seq: &'a [Res], ident: &str) -> Option<&'a Res> {
    let acc = spec_accepts(seq);
    seq.iter().zip(acc).find(|(x, ok)| *ok && (x.name == ident || x.aliases.iter().any(|a| a == ident))).map(|p| p.0)
}
fn spec_gate(store: &[Res], ident: &str) -> Option<String> {
    let x = spec_lookup(store, ident)?;
    if x.permission != 0 || x.template || x.mime == "fn/javascript" {
        return None;
    }
    Some(format!("data:{};base64,{}", spec_mime_name(&x.mime), x.content()))
}
/// the set of acceptable answers (ties between different resources at the top priority)
fn reference(supported: bool, matching: &[(bool, Option<String>, String)], store: &[Res]) -> Vec<Option<String>> {
    if !supported {
        return vec![None];
    }
    let excepted: BTreeSet<String> = matching.iter().filter(|m| m.0).filter_map(|m| m.1.as_ref()).map(|s| spec_split(s).0).collect();
    let cands: Vec<(String, i64)> = matching.iter().filter(|m| !m.0).filter_map(|m| m.1.as_ref()).map(|s| spec_split(s)).filter(|(n, _)| !excepted.contains(n)).collect();
    let Some(max) = cands.iter().map(|c| c.1).max() else { return vec![None] };
    // among equal priorities the resource name that sorts first (bytewise) wins (since /repo 8ebf406
    // the choice is a function of the SET of matching rules; before, any member of the arg-max set
    // was acceptable and the comparisons below exempted ties)
    let names: BTreeSet<&String> = cands.iter().filter(|c| c.1 == max).map(|c| &c.0).collect();
    names.into_iter().take(1).map(|n| spec_gate(store, n)).collect()
}

/// runs the oracle; returns (class, message) of a failure
fn oracle(c: &Case, o: &Outcome) -> Option<(Option<&'static str>, String)> {
    if let Some(m) = &o.misbehaviour {
        return Some((None, m.clone()));
    }
    let allowed = reference(o.supported, &o.matching, &c.store);
    if !allowed.contains(&o.got_redirect) {
        return Some((None, format!("redirect {:?} but the specification allows {:?}", o.got_redirect, allowed)));
    }
    // the loading path is irrelevant: a batch engine over the rules in force answers the same
    // (ties between different resources at the top priority are exempt: bucket order may differ)
    if let Some((red, matched, important)) = &o.batch_twin {
        if allowed.len() == 1 && red != &o.got_redirect {
            return Some((None, format!("redirect {:?} after loading through add_filter (batch part {:?}) but {:?} from a batch engine over the same rules", o.got_redirect, c.batch, red)));
        }
        if (*matched, *important) != (o.got_matched, o.got_important) {
            return Some((None, format!("matched/important {:?} after loading through add_filter (batch part {:?}) but {:?} from a batch engine over the same rules", (o.got_matched, o.got_important), c.batch, (matched, important))));
        }
    }
    // the redirect does not depend on the blocking side: adding a plain exception, a plain blocking
    // rule or an $important rule for the request's host changes `matched` at most.  (Ties between
    // different resources at the top priority are exempt: an added rule may reorder buckets.)
    if allowed.len() == 1 {
        for (extra, red, _) in &o.variants {
            if red != &o.got_redirect {
                return Some((None, format!("adding {:?} changed the redirect from {:?} to {:?}", extra, o.got_redirect, red)));
            }
        }
    }
    if o.supported {
        if o.variants[0].2 && !o.got_important {
            return Some((None, format!("still blocked after adding the plain exception {:?} although no important rule blocks", o.variants[0].0)));
        }
    }
    if !o.supported {
        if o.got_matched {
            return Some((None, "unsupported request reported as matched".into()));
        }
        return None;
    }
    // a redirect= rule also blocks (unless an exception applies)
    if o.redirect_opt_matches && !o.exception_matches && !o.got_matched {
        return Some((None, "a matching redirect= rule did not block the request".into()));
    }
    // redirect-rule never blocks
    if o.got_matched && !o.other_blocker_matches {
        if o.rr_important_matches {
            // was the known class C13_redirect_rule_important_blocks; repaired in /repo b0d8343
            return Some((None, "request blocked although only redirect-rule rules (with important) match".into()));
        }
        return Some((None, "request blocked although no blocking rule other than redirect-rule matches".into()));
    }
    // known class: a redirect / redirect-rule option on a rule whose tag is enabled is never served
    // and never blocks (`redirects` and `filters` are probed with the empty tag set)
    if o.matching_with_enabled_tags.len() != o.matching.len() {
        let strict = reference(o.supported, &o.matching_with_enabled_tags, &c.store);
        if !strict.contains(&o.got_redirect) {
            return Some((Some("C13_tagged_redirect_inert"), format!("redirect {:?} but with the enabled-tag redirect rules counted the specification allows {:?}", o.got_redirect, strict)));
        }
        if o.tagged_redirect_opt_matches && !o.exception_matches && !o.got_matched {
            return Some((Some("C13_tagged_redirect_inert"), "a matching redirect= rule with an enabled tag did not block the request".into()));
        }
    }
    None
}

fn i32_stream(r: &mut Rng) -> String {
    const ATOMS: &[&str] = &["", "0", "1", "7", "9", "00", "21474", "83647", "83648", "83649", "2147483647", "2147483648", "-", "+", " ", "x", "e", ".", "\u{ff11}", "_", "99999999999"];
    let mut s = String::new();
    if r.chance(1, 3) {
        s.push_str(r.pick(&["-", "+", "", ""]));
    }
    for _ in 0..r.range(0, 3) {
        s.push_str(r.pick(ATOMS));
    }
    s
}

fn main() {
    let a = args();
    if let Some(p) = &a.replay {
        let v: Value = serde_json::from_str(&std::fs::read_to_string(p).unwrap()).unwrap();
        if let Some(t) = v["replay"]["i32"].as_str() {
            println!("str::parse::<i32>({:?}) = {:?}; grammar = {:?}", t, t.parse::<i32>().ok(), spec_parse_i32(t));
            if t.parse::<i32>().ok().map(|x| x as i64) != spec_parse_i32(t) {
                println!("VIOLATION property=C13 replay={}", p.display());
                std::process::exit(1);
            }
            return;
        }
        if let Some(adds) = v["replay"]["adds"].as_array() {
            let seq: Vec<Res> = adds.iter().map(Res::from_json).collect();
            let idents = seq_idents(&seq);
            let probe = (v["replay"]["probe"].as_u64().unwrap_or(0) as usize).min(seq.len().saturating_sub(1));
            let (flags, last, _, fail) = run_add_seq(&seq, &idents, probe);
            println!("add_resource answers: {:?}; specification: {:?}", flags, spec_accepts(&seq));
            for (id, got) in idents.iter().zip(last.iter()) {
                println!("  {:?}: impl {:?}  spec {:?}", id, got, spec_gate(&seq, id));
            }
            if let Some(what) = fail {
                println!("{}", what);
                println!("VIOLATION property=C13 replay={}", p.display());
                std::process::exit(1);
            }
            return;
        }
        let c = Case::from_json(&v["replay"]);
        let o = eval(&c, false).expect("request could not be built");
        println!("loading path: rules {}, resources {}; add_filter calls: {:?}; batch twin: {:?}",
            match c.batch { None => "Engine::from_rules_parametrised".to_string(), Some(k) => format!("Blocker::new on the first {} + add_filter for the rest", k) },
            if c.store_by_add { "one add_resource call each" } else { "use_resources / from_resources" },
            o.adds.iter().map(|x| (&x.0, x.1)).collect::<Vec<_>>(), o.batch_twin);
        println!(
            "matching={:?} impl: redirect={:?} matched={} important={}; spec allows {:?}; redirect_opt_matches={} exception_matches={} other_blocker_matches={} rr_important_matches={} enabled_tag_redirect_rules={}",
            o.matching, o.got_redirect, o.got_matched, o.got_important, reference(o.supported, &o.matching, &c.store),
            o.redirect_opt_matches, o.exception_matches, o.other_blocker_matches, o.rr_important_matches,
            o.matching_with_enabled_tags.len() - o.matching.len()
        );
        if let Some((class, what)) = oracle(&c, &o) {
            println!("{} ({})", what, class.unwrap_or("new"));
            println!("VIOLATION property=C13 replay={}", p.display());
            std::process::exit(1);
        }
        return;
    }
    let mut r = Rng::new(a.seed);
    let mut cs = Cases::new(&a.out, "Generated C13_Model");
    let mut sm = Summary::default();
    sm.rule = "random lists of 1-6 redirect / redirect-rule rules and redirect exceptions over 31 resource names x 29 priority suffixes (weighted towards loadable names and well-formed priorities) (negative, equal, signed, overflowing, malformed), with type/domain/party/important/tag/badfilter/generichide options, mixed with plain blocking rules, plain exceptions and $important rules; resource stores drawn from 10 resources (aliases, gif/binary, fn/javascript, template, two permissioned) plus colliding, invalid-base64, non-UTF-8 and dependency-carrying ones in random order; requests of all type strings on 4 hosts (incl. an unsupported scheme); non-trivial = at least one redirect rule matches the request. LOADING PATHS: every list/request/store is evaluated twice - through Engine::from_rules_parametrised (batch) and along a second path: empty Blocker + one Blocker::add_filter call per rule (list order / shuffled), Blocker::new on a prefix + add_filter for the rest, all exceptions (redirect exceptions among them) added last at run time, all redirect / redirect-rule rules and redirect exceptions added at run time after a batch of plain rules, exceptions first; the answers of add_filter ($badfilter refused, duplicate line refused, everything else accepted), the verdict against the specification over the rules in force, against a batch engine over the rules in force, and the filing of run-time rules (category_of) are checked on every path; the exhaustive sweep alternates the three paths. RESOURCE PATHS: stores reach the engine through use_resources / from_resources or through one add_resource call per resource; a quarter of the stores and 300 dedicated sequences are add_resource call sequences with calls rejected for a collision on the name, on the first alias or on a later alias of a multi-alias resource (or for their content), followed by calls that re-use the identifiers of the rejected call; after every call every identifier that occurs anywhere in the sequence is looked up (get_redirect_resource; at the end also from_resources and an engine with one redirect-rule per identifier) and compared with `the resource of the first successful add that declared it` and with the model's from_resources / add_resource (final state, state right after a rejected call, Ok/Err flags)".into();
    let n = 1500 * a.scale;
    let mut shape_seen: BTreeSet<(u32, bool, bool)> = BTreeSet::new();
    let mut all: Vec<Case> = vec![];
    let mut gen_counts: Vec<&'static str> = vec![];
    for it in 0..n {
        let rules = gen_rules(&mut r);
        let url = if r.chance(1, 5) { gen::url_for(&mut r, &rules[0]) } else { gen_url(&mut r) };
        // never an empty source: "no source + domain= rule" is the C01 finding F2, not a C13 matter
        let source = if r.chance(1, 2) { format!("https://{}/page", r.pick(gen::DOMAINS)) } else { format!("https://{}/", r.pick(RHOSTS)) };
        let mut tags = vec![];
        for t in gen::TAGS {
            if r.chance(1, 2) {
                tags.push(t.to_string());
            }
        }
        // a quarter of the stores is a sequence of add_resource calls with rejected calls and re-used identifiers
        let store = if r.chance(1, 4) { gen_counts.push("store_is_add_sequence_with_rejections"); gen_add_seq(&mut r, RULE_IDS) } else { gen_store(&mut r) };
        let base = Case { rules, store, tags, url, source, ty: gen::request_type(&mut r).to_string(), optimize: r.chance(2, 3), batch: None, store_by_add: r.chance(1, 2) };
        // the same rules, resources and request along a second loading path
        let mut alt = base.clone();
        alt.store_by_add = r.chance(1, 2);
        let shuffle = |v: &mut Vec<String>, r: &mut Rng| {
            for i in (1..v.len()).rev() {
                let j = r.below(i + 1);
                v.swap(i, j);
            }
        };
        let is_exc = |l: &String| l.starts_with("@@");
        let is_red = |l: &String| l.contains("redirect=") || l.contains("redirect-rule=");
        match it % 6 {
            0 => { alt.batch = Some(0); gen_counts.push("order_add_filter_in_list_order"); }
            1 => { shuffle(&mut alt.rules, &mut r); alt.batch = Some(0); gen_counts.push("order_add_filter_shuffled"); }
            2 => { alt.batch = Some(if alt.rules.len() > 1 { r.range(1, alt.rules.len() - 1) } else { 0 }); gen_counts.push("order_batch_prefix_then_add_filter"); }
            3 => {
                // every exception (redirect exceptions among them) arrives at run time, after all other rules
                let (e, ne): (Vec<String>, Vec<String>) = alt.rules.iter().cloned().partition(is_exc);
                alt.batch = Some(if r.chance(1, 2) { ne.len() } else { 0 });
                alt.rules = ne.into_iter().chain(e).collect();
                gen_counts.push("order_exceptions_added_last_at_run_time");
            }
            4 => {
                // every redirect / redirect-rule rule and redirect exception arrives at run time, after the plain rules
                let (red, plain): (Vec<String>, Vec<String>) = alt.rules.iter().cloned().partition(is_red);
                alt.batch = Some(plain.len());
                let mut red = red;
                shuffle(&mut red, &mut r);
                alt.rules = plain.into_iter().chain(red).collect();
                gen_counts.push("order_redirect_rules_added_at_run_time_after_batch_of_plain_rules");
            }
            _ => {
                // exceptions first (batch), the rules they cancel added afterwards
                let (e, ne): (Vec<String>, Vec<String>) = alt.rules.iter().cloned().partition(is_exc);
                alt.batch = Some(if r.chance(1, 2) { e.len() } else { 0 });
                alt.rules = e.into_iter().chain(ne).collect();
                gen_counts.push("order_exceptions_first_then_add_filter");
            }
        }
        all.push(base);
        all.push(alt);
    }
    for g in gen_counts {
        cs.stat(g);
    }
    // exhaustive sweep: every subset of 8 rules on one host x resource stores (x types, thorough)
    let universe = [
        "||foo.com^$redirect=noop.js:1",
        "||foo.com^$redirect-rule=noop.txt:1",
        "||foo.com^$redirect-rule=nooptext:2",
        "||foo.com^$redirect=1x1.gif",
        "@@||foo.com^$redirect-rule=noop.js",
        "@@||foo.com^$redirect=noop.txt:5",
        "||foo.com^$redirect-rule=perm.js:9",
        "||foo.com^$redirect=missing.js:-1",
    ];
    let full: Vec<Res> = vec![
        res("noop.js", &["noopjs"], "application/javascript", b"(function(){})()"),
        res("noop.txt", &["nooptext"], "text/plain", b""),
        res("1x1.gif", &[], "image/gif", &[0x47, 0x49, 0x46]),
        Res { permission: 1, ..res("perm.js", &[], "application/javascript", b"p()") },
    ];
    let stores: Vec<Vec<Res>> = vec![full.clone(), full[..1].to_vec(), full[1..].to_vec()];
    let types: &[&str] = if a.scale > 1 { &["script", "image", "document", "xhr"] } else { &["script"] };
    for mask in 0..256u32 {
        for (si, st) in stores.iter().enumerate() {
            if a.scale == 1 && si == 2 {
                continue;
            }
            for ty in types {
                let rules: Vec<String> = universe.iter().enumerate().filter(|(i, _)| mask & (1 << i) != 0).map(|(_, l)| l.to_string()).collect();
                // the sweep alternates between the three loading paths and the two resource paths
                let batch = match (mask as usize / 2 + si) % 3 { 0 => None, 1 => Some(0), _ => Some(rules.len() / 2) };
                all.push(Case { rules, store: st.clone(), tags: vec![], url: "https://foo.com/x.js".into(), source: "https://example.com/".into(), ty: ty.to_string(), optimize: mask % 2 == 0, batch, store_by_add: (mask / 4) % 2 == 0 });
            }
        }
    }
    sm.extra.insert("exhaustive_sweep".into(), json!(format!("all 256 subsets of {} rules on one host x {} stores x {} types", universe.len(), if a.scale > 1 { 3 } else { 2 }, types.len())));
    for (i, c) in all.into_iter().enumerate() {
        if !c.url.is_ascii() || c.url.contains('*') || c.url.starts_with("ws") {
            cs.stat("skipped_url_outside_domain");
            continue;
        }
        let Some(o) = eval(&c, i % 4 < 2) else { cs.stat("request_error"); continue };
        sm.oracle_evaluations += 1;
        if !o.scan_equals_delivery {
            cs.stat("scan_differs_from_bucket_lookup");
            if std::env::var("C13_DEBUG").is_ok() {
                eprintln!("SCANDIFF {}", c.json());
            }
        }
        if let Some((class, what)) = oracle(&c, &o) {
            sm.failure(class, &what, c.json());
        }
        let mut desc = c.json();
        desc["matching"] = json!(o.matching);
        desc["impl"] = json!({"redirect": o.got_redirect, "matched": o.got_matched, "important": o.got_important});
        cs.stat(match c.batch { None => "path_batch_engine", Some(0) => "path_empty_blocker_add_filter_only", Some(_) => "path_batch_prefix_then_add_filter" });
        cs.stat(if c.store_by_add { "resources_by_add_resource_calls" } else { "resources_by_use_resources" });
        for (line, ans, is_red, is_exc, blocks) in &o.adds {
            cs.stat(match ans { AddAnswer::RefusedBadfilter => "add_filter_refused_badfilter", AddAnswer::RefusedDuplicate => "add_filter_duplicate", AddAnswer::Accepted => "add_filter_accepted" });
            if *ans == AddAnswer::Accepted && *is_red {
                cs.stat(if *is_exc { "run_time_added_redirect_exception" } else if *blocks { "run_time_added_redirect" } else { "run_time_added_redirect_rule" });
                if o.matching.iter().any(|m| &m.2 == line) {
                    cs.stat(if *is_exc { "run_time_added_redirect_exception_matches_request" } else { "run_time_added_redirect_matches_request" });
                }
            }
        }
        if c.batch.is_some() {
            // an exception added at run time cancels an offer of the same resource
            let cancels = o.matching.iter().any(|m| m.0 && o.adds.iter().any(|x| x.0 == m.2 && x.1 == AddAnswer::Accepted)
                && m.1.as_ref().map_or(false, |e| o.matching.iter().any(|n| !n.0 && n.1.as_ref().map_or(false, |s| spec_split(s).0 == spec_split(e).0))));
            if cancels {
                cs.stat("run_time_added_exception_cancels_an_offer");
            }
        }
        cs.stat(if !o.supported { "unsupported_request" } else if o.matching.is_empty() { "no_matching_redirect_rule" } else if o.got_redirect.is_some() { "redirected" } else { "matching_but_no_redirect" });
        if o.got_redirect.is_some() && !o.got_matched {
            cs.stat("redirect_without_block");
        }
        if o.matching.iter().any(|m| m.0) {
            cs.stat("redirect_exception_matching");
        }
        if reference(o.supported, &o.matching, &c.store).len() > 1 {
            cs.stat("tie_between_resources_at_top_priority");
        }
        let expr = format!(
            "ostr_eqb (v_redirect (check_verdict {} (mk_block false false false false) (from_resources {}) {})) {}",
            cbool(o.supported),
            clist(&c.store, |x| x.coq()),
            clist(&o.matching, |m| format!("mk_rr {} {}", cbool(m.0), copt(&m.1, |s| hxs(s)))),
            copt(&o.got_redirect, |s| hxs(s))
        );
        cs.case(expr, desc, !o.matching.is_empty());
        for (line, mask, tagged, cat, in_red, via_add) in &o.shapes {
            if shape_seen.insert((*mask, *tagged, *via_add)) {
                cs.stat(if *via_add { "distinct_rule_shapes_filed_by_add_filter" } else { "distinct_rule_shapes" });
                cs.case(
                    format!("cat_eqb (category_of (mk_shape {} {})) {} && Bool.eqb (in_redirects (mk_shape {} {})) {}", cn(*mask), cbool(*tagged), cat, cn(*mask), cbool(*tagged), cbool(*in_red)),
                    json!({"rule": line, "mask": mask, "tagged": tagged, "category": cat, "in_redirects": in_red, "filed_by": if *via_add { "Blocker::add_filter" } else { "Blocker::new" }}),
                    mask & (1 << 26) != 0,
                );
            }
        }
    }
    // sequences of add_resource calls (rejected calls, re-use of their identifiers) and lookups by
    // every identifier that ever occurred
    for _ in 0..(300 * a.scale) {
        let seq = gen_add_seq(&mut r, SEQ_IDS);
        let idents = seq_idents(&seq);
        let acc = spec_accepts(&seq);
        // state right after a rejected call (the last one), else after a random call
        let probe = acc.iter().rposition(|x| !*x).unwrap_or_else(|| r.below(seq.len()));
        let (flags, last, at_probe, fail) = run_add_seq(&seq, &idents, probe);
        sm.oracle_evaluations += 1;
        let replay = json!({"adds": seq.iter().map(|x| x.json()).collect::<Vec<_>>(), "probe": probe});
        if let Some(what) = fail {
            sm.failure(None, &what, replay.clone());
        }
        cs.stat("add_resource_sequences");
        for k in classify_adds(&seq) {
            cs.stat(k);
        }
        let reuse = classify_adds(&seq).contains(&"seq_accepted_reusing_identifiers_of_a_rejected_add");
        let store = clist(&seq, |x| x.coq());
        let pairs = |idents: &[String], got: &[Option<String>]| clist(&idents.iter().zip(got.iter()).collect::<Vec<_>>(), |p| format!("({}, {})", hxs(p.0), copt(p.1, |s| hxs(s))));
        let mut desc = replay.clone();
        desc["fn"] = json!("get_redirect_resource after the whole sequence of add_resource calls");
        desc["accepted"] = json!(flags);
        desc["lookups"] = json!(idents.iter().zip(last.iter()).collect::<Vec<_>>());
        cs.case(
            format!("let st := from_resources {} in forallb (fun p => ostr_eqb (get_redirect_resource st (fst p)) (snd p)) {}", store, pairs(&idents, &last)),
            desc.clone(),
            flags.iter().any(|x| !*x),
        );
        desc["fn"] = json!(format!("get_redirect_resource right after call #{}", probe));
        desc["lookups"] = json!(idents.iter().zip(at_probe.iter()).collect::<Vec<_>>());
        cs.case(
            format!("let st := from_resources {} in forallb (fun p => ostr_eqb (get_redirect_resource st (fst p)) (snd p)) {}", clist(&seq[..=probe], |x| x.coq()), pairs(&idents, &at_probe)),
            desc.clone(),
            !flags[probe],
        );
        // which calls the model accepts (the store grows) vs the Ok/Err answers of add_resource
        desc["fn"] = json!("Ok/Err of every add_resource call");
        desc.as_object_mut().unwrap().remove("lookups");
        cs.case(
            format!(
                "list_eqb Bool.eqb (snd (fold_left (fun (a : storage * list bool) (x : resource) => let st1 := add_resource (fst a) x in (st1, (snd a ++ [negb (Nat.eqb (length (st_resources st1)) (length (st_resources (fst a))))])%list)) {} (empty_store, []))) {}",
                store,
                clist(&flags, |b| cbool(*b).to_string())
            ),
            desc,
            reuse,
        );
    }
    // Rust's i32 parser (the function split_redirect_priority calls) vs the model's
    for _ in 0..(400 * a.scale) {
        let s = i32_stream(&mut r);
        let got = s.parse::<i32>().ok();
        if got.map(|x| x as i64) != spec_parse_i32(&s) {
            sm.failure(None, &format!("oracle's i32 grammar disagrees with str::parse::<i32> on {:?}", s), json!({"i32": s}));
        }
        cs.stat(if got.is_some() { "i32_ok" } else { "i32_err" });
        cs.case(
            format!("oz_eqb (parse_i32 {}) {}", hxs(&s), copt(&got, |v| format!("(zlit {} {})", cbool(*v < 0), cn((*v as i64).abs())))),
            json!({"i32_text": s, "parsed": got}),
            got.is_some(),
        );
    }
    cs.finish();
    sm.write(&a.out, &cs);
}
