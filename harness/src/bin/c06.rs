//! C06 — answers depend only on current rules, tags and resources, not on history.
//!
//! A random history of public operations is applied to a live `Blocker` (add_filter, tag
//! switches, regex discard policy / discard, optimize, queries) and after every query the answer
//! is compared with a **freshly built** blocker holding the same accepted rules and tags
//! (implementation-side oracle).  Correspondence with the Coq side:
//!   * CacheInv (C06_Model.dump_inv_b) is evaluated on the dumped regex cache and rule addresses
//!     after every operation;
//!   * the accept/reject decisions of add_filter and the verdict of the incrementally grown
//!     blocker are compared with `add_all` / `blocker_check` of the model.
//! Engine level: cosmetic and network answers before/after resource loading and reload, and
//! batch vs piecewise list loading.
use adblock::blocker::{Blocker, BlockerOptions};
use adblock::filters::network::{NetworkFilter, NetworkFilterMask, NetworkFilterMaskHelper};
use adblock::regex_manager::RegexManagerDiscardPolicy;
use adblock::request::Request;
use adblock::resources::{MimeType, Resource, ResourceStorage, ResourceType};
use adblock::verif_hooks::{dump_blocker, dump_filter, compile_regex_text, FilterDump};
use adblock::Engine;
use implrun::net::*;
use implrun::*;
use serde_json::{json, Value};
use std::collections::{BTreeSet, HashSet};
use std::time::Duration;

#[derive(Clone, Debug)]
enum Op {
    Add(String),
    Use(Vec<String>),
    Enable(Vec<String>),
    Disable(Vec<String>),
    Policy(u64, u64),
    DiscardAll,
    Optimize,
    Query(String, String, String),
}
fn op_json(o: &Op) -> Value {
    match o {
        Op::Add(l) => json!({"add": l}),
        Op::Use(t) => json!({"use": t}),
        Op::Enable(t) => json!({"enable": t}),
        Op::Disable(t) => json!({"disable": t}),
        Op::Policy(a, b) => json!({"policy": [a, b]}),
        Op::DiscardAll => json!("discard_all"),
        Op::Optimize => json!("optimize"),
        Op::Query(u, s, t) => json!({"query": [u, s, t]}),
    }
}
fn op_from(v: &Value) -> Op {
    let strs = |x: &Value| x.as_array().unwrap().iter().map(|s| s.as_str().unwrap().to_string()).collect::<Vec<_>>();
    if let Some(x) = v.get("add") { Op::Add(x.as_str().unwrap().into()) }
    else if let Some(x) = v.get("use") { Op::Use(strs(x)) }
    else if let Some(x) = v.get("enable") { Op::Enable(strs(x)) }
    else if let Some(x) = v.get("disable") { Op::Disable(strs(x)) }
    else if let Some(x) = v.get("policy") { Op::Policy(x[0].as_u64().unwrap(), x[1].as_u64().unwrap()) }
    else if let Some(x) = v.get("query") { let s = strs(x); Op::Query(s[0].clone(), s[1].clone(), s[2].clone()) }
    else if v.as_str() == Some("optimize") { Op::Optimize } else { Op::DiscardAll }
}

fn resources() -> ResourceStorage {
    ResourceStorage::from_resources([
        implrun::res::resource("noop.js", MimeType::ApplicationJavascript, "(function(){})()"),
        implrun::res::resource("noop.txt", MimeType::TextPlain, ""),
        Resource { name: "1x1.gif".into(), aliases: vec!["1x1-transparent.gif".into()], kind: ResourceType::Mime(MimeType::ImageGif), content: "R0lGODlhAQABAIAAAAAAAP///yH5BAEAAAAALAAAAAABAAEAAAIBRAA7".into(), dependencies: vec![], permission: Default::default() },
    ])
}

struct Obs {
    v: V,
    redirect: Option<String>,
    rewritten: Option<String>,
    csp: Option<BTreeSet<String>>,
    generichide: bool,
}
fn observe(b: &Blocker, rs: &ResourceStorage, req: &Request) -> Obs {
    let r = b.check(req, rs);
    Obs {
        v: V { matched: r.matched, important: r.important, exception: r.exception.is_some(), filter: r.filter.is_some() },
        redirect: r.redirect,
        rewritten: r.rewritten_url,
        csp: b.get_csp_directives(req).map(|s| s.split(',').map(|x| x.to_string()).collect()),
        generichide: b.check_generic_hide(req),
    }
}
fn obs_diff(a: &Obs, b: &Obs) -> Option<String> {
    if a.v != b.v { return Some(format!("verdict {:?} vs fresh {:?}", a.v, b.v)) }
    if a.redirect != b.redirect { return Some(format!("redirect {:?} vs fresh {:?}", a.redirect.as_ref().map(|s| s.len()), b.redirect.as_ref().map(|s| s.len()))) }
    if a.rewritten != b.rewritten { return Some(format!("rewritten_url {:?} vs fresh {:?}", a.rewritten, b.rewritten)) }
    if a.csp != b.csp { return Some(format!("csp {:?} vs fresh {:?}", a.csp, b.csp)) }
    if a.generichide != b.generichide { return Some(format!("generichide {} vs fresh {}", a.generichide, b.generichide)) }
    None
}

/// (address, regex text) of every stored rule and (key, regex text) of every compiled cache entry
fn cache_dump(b: &Blocker) -> (Vec<(u64, String)>, Vec<(u64, String)>) {
    let d = dump_blocker(b);
    let mut heap = vec![];
    for (_, l) in d.lists.iter() {
        for (_, bucket) in l.iter() {
            for f in bucket.iter() {
                let m = NetworkFilterMask::from_bits_retain(f.mask);
                let parts: Vec<&str> = f.filter.iter().map(|s| &**s).collect();
                heap.push((f.addr, compile_regex_text(&parts, m.is_right_anchor(), m.is_left_anchor(), m.is_complete_regex())));
            }
        }
    }
    heap.sort();
    heap.dedup();
    let mut cache: Vec<(u64, String)> = b.get_regex_debug_info().regex_data.into_iter().filter_map(|e| e.regex.map(|r| (e.id, r))).collect();
    cache.sort();
    (heap, cache)
}
fn cache_inv(heap: &[(u64, String)], cache: &[(u64, String)]) -> Option<String> {
    for (k, re) in cache {
        match heap.iter().find(|(a, _)| a == k) {
            None => return Some(format!("cache entry {:#x} ({}) belongs to no stored rule", k, re)),
            Some((_, want)) if want != re => return Some(format!("cache entry {:#x} holds {:?} but the rule at that address compiles to {:?}", k, re, want)),
            _ => {}
        }
    }
    None
}

struct Live {
    b: Blocker,
    accepted: Vec<String>,
    tags: BTreeSet<String>,
    /// add_filter answered FilterExists for a rule that was never added (a dropped rule)
    wrongly_rejected: Option<String>,
}
fn fresh(accepted: &[String], tags: &BTreeSet<String>) -> Blocker {
    let rules: Vec<NetworkFilter> = accepted.iter().filter_map(|l| NetworkFilter::parse(l, true, Default::default()).ok()).collect();
    let mut b = Blocker::new(rules, &BlockerOptions { enable_optimizations: false });
    b.use_tags(&tags.iter().map(|s| &**s).collect::<Vec<_>>());
    b
}
fn apply(l: &mut Live, o: &Op) {
    match o {
        Op::Add(line) => {
            if let Ok(f) = NetworkFilter::parse(line, true, Default::default()) {
                // which rules count as loaded is decided HERE, not by the answer of add_filter: a rule is
                // refused only when it is a $badfilter rule or the very same line was added before
                // (filter_exists may miss a duplicate, which is harmless, but must never invent one)
                use adblock::filters::network::NetworkFilterMaskHelper;
                let dup = l.accepted.iter().any(|x| x.trim() == line.trim());
                let bad = f.is_badfilter();
                let res = l.b.add_filter(f);
                if !bad && !dup {
                    l.accepted.push(line.clone());
                    if res.is_err() && l.wrongly_rejected.is_none() {
                        l.wrongly_rejected = Some(format!("add_filter({:?}) answered {:?} although that rule was never added", line, res));
                    }
                }
            }
        }
        Op::Use(t) => { l.b.use_tags(&t.iter().map(|s| &**s).collect::<Vec<_>>()); l.tags = t.iter().cloned().collect() }
        Op::Enable(t) => { l.b.enable_tags(&t.iter().map(|s| &**s).collect::<Vec<_>>()); l.tags.extend(t.iter().cloned()) }
        Op::Disable(t) => { l.b.disable_tags(&t.iter().map(|s| &**s).collect::<Vec<_>>()); for x in t { l.tags.remove(x); } }
        Op::Policy(a, b) => l.b.set_regex_discard_policy(RegexManagerDiscardPolicy { cleanup_interval: Duration::from_nanos(*a), discard_unused_time: Duration::from_nanos(*b) }),
        Op::DiscardAll => { for e in l.b.get_regex_debug_info().regex_data { l.b.discard_regex(e.id) } }
        Op::Optimize => l.b.optimize(),
        Op::Query(..) => {}
    }
}

fn regex_rule(r: &mut Rng) -> String {
    let a = r.pick(gen::VOCAB);
    let b = r.pick(gen::VOCAB);
    let base = match r.below(5) {
        0 => format!("/{}*{}", a, b),
        1 => format!("{}^{}", a, b),
        2 => format!("||{}^*{}", r.pick(gen::HOSTS), b),
        3 => format!("/{}.*{}/", a, b),
        _ => format!("|https://*{}^", a),
    };
    match r.below(5) {
        0 => format!("{}$tag={}", base, r.pick(gen::TAGS)),
        1 => format!("@@{}$tag={}", base, r.pick(gen::TAGS)),
        2 => format!("@@{}", base),
        _ => base,
    }
}
const DOM_POOL: &[&str] = &["first.example", "second.example", "third.example"];
fn gen_op(r: &mut Rng, accepted: &[String]) -> Op {
    // tag lists of 0-4 entries with repetitions, over the rule tags plus a tag no rule carries: a
    // disable / enable call that mixes enabled, not-enabled and unknown tags is the ordinary case
    let tags = |r: &mut Rng| (0..r.range(0, 4)).map(|_| r.pick(&["t1", "t2", "t3", "t1", "t2", "zz"]).to_string()).collect::<Vec<_>>();
    match r.below(20) {
        // a small family of rules sharing one token and differing in the last path segment or in one
        // option: they are neighbours in one bucket, get fused by optimize(), and later additions are
        // near twins (same pattern, other option) of rules already fused
        0 | 1 => Op::Add(format!("/fam{}/x{}{}", r.below(2), r.below(5), r.pick(&["", "$image", "$script", "$image", "$script,third-party", "$tag=t1"]))),
        2..=4 => Op::Add(if r.chance(1, 2) { regex_rule(r) } else { gen::rule(r, true) }),
        5 => Op::Add(if accepted.is_empty() { gen::rule(r, true) } else { accepted[r.below(accepted.len())].clone() }),
        6 => Op::Use(tags(r)),
        7 | 8 => Op::Enable(tags(r)),
        9 | 13 => Op::Disable(tags(r)),
        10 => Op::Policy(r.pick(&[1u64, 1, 1_000_000_000_000]), r.pick(&[0u64, 0, 1_000_000_000_000])),
        11 => Op::DiscardAll,
        12 => if r.chance(2, 3) { Op::Optimize } else { Op::DiscardAll },
        // rules dispatched per initiator domain (no pattern token: one token group, and one bucket, per
        // `domain=` entry) over a pool of three domains, so that a later rule's domains already have
        // populated buckets
        14 => {
            let k = r.range(1, 3);
            let mut ds: Vec<&str> = vec![];
            while ds.len() < k { let d = r.pick(DOM_POOL); if !ds.contains(&d) { ds.push(d) } }
            Op::Add(format!("{}${},domain={}", r.pick(&["", "", "*", "@@"]), r.pick(&["script", "image", "xhr"]), ds.join("|")))
        }
        15 => Op::Query(gen::url(r).replace('*', "1"), format!("https://{}{}/page", r.pick(&["", "www.", "a.b."]), r.pick(DOM_POOL)), r.pick(&["script", "image", "xhr"]).to_string()),
        _ => {
            let url = if r.chance(1, 4) { format!("https://{}/fam{}/x{}", r.pick(gen::HOSTS), r.below(2), r.below(5)) } else if r.chance(2, 3) && !accepted.is_empty() { { let k = r.below(accepted.len()); gen::url_for(r, &accepted[k]) } } else { gen::url(r) };
            let url = url.replace('*', "1");
            let src = { let s = gen::source_url(r); if s.is_empty() { "https://a.com/page".to_string() } else { s } };
            Op::Query(url, src, r.pick(&["script", "document", "subdocument", "image", "xhr", "other"]).to_string())
        }
    }
}

/// Runs a history; returns the first failure message.
fn run_history(ops: &[Op], mut on_query: impl FnMut(&Live, &Request, &Obs, usize), mut on_state: impl FnMut(&Live, usize)) -> Option<(usize, String)> {
    let rs = resources();
    let mut l = Live { b: Blocker::new(vec![], &BlockerOptions { enable_optimizations: false }), accepted: vec![], tags: BTreeSet::new(), wrongly_rejected: None };
    let mut optimized = false;
    for (i, o) in ops.iter().enumerate() {
        apply(&mut l, o);
        if let Some(m) = l.wrongly_rejected.take() {
            return Some((i, m));
        }
        // the enabled set is plain set algebra over the calls made so far
        {
            let mut got: Vec<String> = l.b.tags_enabled();
            got.sort();
            let want: Vec<String> = l.tags.iter().cloned().collect();
            if got != want {
                return Some((i, format!("enabled tags are {:?}, set algebra over the history gives {:?}", got, want)));
            }
        }
        if let Op::Optimize = o { optimized = true }
        if let Op::Query(u, s, t) = o {
            let Ok(req) = Request::new(u, s, t) else { continue };
            register_request(&req, u, s, t);
            if !u.is_ascii() || (!req.is_http && !req.is_https) { continue }
            let got = observe(&l.b, &rs, &req);
            let f = fresh(&l.accepted, &l.tags);
            let want = observe(&f, &rs, &req);
            if let Some(m) = obs_diff(&got, &want) {
                return Some((i, m));
            }
            on_query(&l, &req, &got, i);
        }
        let (heap, cache) = cache_dump(&l.b);
        if let Some(m) = cache_inv(&heap, &cache) {
            return Some((i, m));
        }
        if !optimized { on_state(&l, i) }
    }
    None
}

fn engine_level(r: &mut Rng, sm: &mut Summary) {
    // batch vs piecewise list loading; queries before/after resources; reload
    // (half of the lists from the list grammar: sibling groups with twins that differ only in their tag)
    let mut lines: Vec<String> = if r.chance(1, 2) { let n = r.range(3, 10); gen::rule_list(r, n, true) } else { (0..r.range(3, 10)).map(|_| gen::rule(r, true)).collect() };
    for _ in 0..r.range(1, 4) {
        let host = r.pick(gen::HOSTS);
        lines.push(match r.below(4) { 0 => format!("{}##.ad-{}", host, r.pick(gen::VOCAB)), 1 => format!("##.{}", r.pick(gen::VOCAB)), 2 => format!("{}#@#.{}", host, r.pick(gen::VOCAB)), _ => format!("###{}-box", r.pick(gen::VOCAB)) });
    }
    // a rule and its tag-only twin next to each other (the tagged rules of an engine are kept in one
    // vector, in load order)
    if r.chance(1, 3) {
        let p = gen::pattern(r);
        if !p.is_empty() {
            let (t1, t2) = if r.chance(1, 2) { ("t1", "t2") } else { ("t2", "t1") };
            lines.push(format!("{}$tag={}", p, t1));
            lines.push(format!("{}$tag={}", p, t2));
        }
    }
    // sometimes the cosmetic lines first (a cosmetic-only first batch), sometimes last
    match r.below(3) {
        0 => lines.sort_by_key(|l| !l.contains("##") && !l.contains("#@#")),
        1 => lines.sort_by_key(|l| l.contains("##") || l.contains("#@#")),
        _ => {}
    }
    let mut whole = Engine::from_rules_parametrised(lines.iter(), Default::default(), true, false);
    // piecewise: 1-4 batches, each through one of FilterSet's entry points
    let mut fs = adblock::FilterSet::new(true);
    let nb = r.range(1, 4);
    let mut cuts: Vec<usize> = (0..nb - 1).map(|_| r.below(lines.len() + 1)).collect();
    cuts.push(0);
    cuts.push(lines.len());
    cuts.sort();
    for w in cuts.windows(2) {
        let batch = &lines[w[0]..w[1]];
        match r.below(3) {
            0 => { fs.add_filters(batch.iter(), Default::default()); }
            1 => { fs.add_filter_list(&batch.join("\n"), Default::default()); }
            _ => { for l in batch { let _ = fs.add_filter(l, Default::default()); } }
        }
    }
    let mut piecewise = Engine::from_filter_set(fs, false);
    // history on the piecewise engine: queries, tags on/off, reload of its own bytes
    for _ in 0..r.range(0, 5) {
        let u = gen::url(r);
        if let Ok(req) = Request::new(&u, "https://a.com/", "script") { let _ = piecewise.check_network_request(&req); }
        let _ = piecewise.url_cosmetic_resources(&format!("https://{}/", r.pick(gen::HOSTS)));
    }
    piecewise.use_tags(&["t1"]);
    piecewise.use_tags(&[]);
    if r.chance(1, 2) {
        let bytes = piecewise.serialize_raw().unwrap();
        piecewise.deserialize(&bytes).unwrap();
    }
    // the tag set in force at query time: installed on both engines AFTER the history and the reload
    let final_tags: &[&str] = match r.below(5) { 0 => &["t1"], 1 => &["t2"], 2 => &["t1", "t2"], 3 => &["t3", "t2"], _ => &[] };
    whole.use_tags(final_tags);
    if r.chance(1, 2) { piecewise.use_tags(final_tags) } else { piecewise.enable_tags(final_tags) }
    // further tag operations on the engine with overlapping lists (a tag that is already enabled
    // next to one that is not; a disabled tag enabled again); the whole-list engine gets the
    // resulting set in one use_tags call
    if r.chance(1, 2) {
        let mut set: BTreeSet<String> = final_tags.iter().map(|s| s.to_string()).collect();
        for _ in 0..r.range(1, 4) {
            let k = r.range(1, 3);
            let ts: Vec<&str> = (0..k).map(|_| r.pick(&["t1", "t2", "t3", "zz"])).collect();
            if r.chance(2, 3) {
                piecewise.enable_tags(&ts);
                set.extend(ts.iter().map(|s| s.to_string()));
            } else {
                piecewise.disable_tags(&ts);
                for t in &ts { set.remove(*t); }
            }
        }
        let v: Vec<&str> = set.iter().map(|s| s.as_str()).collect();
        whole.use_tags(&v);
    }
    for _ in 0..4 {
        let url = if r.chance(1, 2) { { let k = r.below(lines.len()); gen::url_for(r, &lines[k]) } } else { gen::url(r) }.replace('*', "1");
        let Ok(req) = Request::new(&url, "https://a.com/page", r.pick(&["script", "document", "image"])) else { continue };
        if !url.is_ascii() || (!req.is_http && !req.is_https) { continue }
        sm.oracle_evaluations += 1;
        let (a, b) = (whole.check_network_request(&req), piecewise.check_network_request(&req));
        // removeparam rules are not serialized (C08 finding F8): skip rewritten_url after a reload
        if (a.matched, a.important, a.exception.is_some(), a.redirect.clone()) != (b.matched, b.important, b.exception.is_some(), b.redirect.clone()) {
            sm.failure(None, &format!("engine built from the whole list and engine built piecewise + history disagree under the tags {:?}", final_tags), json!({"kind": "engine", "rules": lines, "url": url, "tags": final_tags}));
        }
        let page = format!("https://{}/", r.pick(gen::HOSTS));
        let (ca, cb) = (whole.url_cosmetic_resources(&page), piecewise.url_cosmetic_resources(&page));
        if ca.hide_selectors != cb.hide_selectors || ca.exceptions != cb.exceptions || ca.generichide != cb.generichide {
            sm.failure(None, "cosmetic resources differ between whole-list engine and piecewise engine with history", json!({"kind": "engine", "rules": lines, "page": page}));
        }
        let classes = vec![r.pick(gen::VOCAB).to_string(), "ad-foo".to_string()];
        let ids = vec![format!("{}-box", r.pick(gen::VOCAB))];
        let mut ha = whole.hidden_class_id_selectors(classes.iter(), ids.iter(), &HashSet::new());
        let mut hb = piecewise.hidden_class_id_selectors(classes.iter(), ids.iter(), &HashSet::new());
        ha.sort(); hb.sort();
        if ha != hb {
            sm.failure(None, "class/id selectors differ between whole-list engine and piecewise engine with history", json!({"kind": "engine", "rules": lines}));
        }
    }
}

fn main() {
    let a = args();
    if let Some(p) = &a.replay {
        let v: Value = serde_json::from_str(&std::fs::read_to_string(p).unwrap()).unwrap();
        let ops: Vec<Op> = v["replay"]["ops"].as_array().map(|x| x.iter().map(op_from).collect()).unwrap_or_default();
        match run_history(&ops, |_, _, _, _| {}, |_, _| {}) {
            Some((i, m)) => { println!("op #{}: {}\nVIOLATION property=C06 replay={}", i, m, p.display()); std::process::exit(1) }
            None => println!("holds on this history"),
        }
        return;
    }
    let mut r = Rng::new(a.seed);
    let mut cs = Cases::new(&a.out, "Hashing Net_Model Net_Proofs C05_Model C06_Model C06_History_Model");
    cs.shard = 40;
    let mut sm = Summary::default();
    sm.rule = "histories of 10-40 public operations on a live Blocker (add_filter of plain/regex/tagged/duplicate rules, use/enable/disable tags, zero-time discard policies, discard of every cached regex, optimize, queries) - every query is compared with a freshly built blocker over the accepted rules and current tags; non-trivial = a query in the history hit at least one rule after a tag switch, discard or optimize had happened".into();
    let n = 120 * a.scale;
    for _ in 0..n {
        let len = r.range(10, 40);
        let mut ops: Vec<Op> = vec![];
        let mut acc_guess: Vec<String> = vec![];
        for _ in 0..len {
            let o = gen_op(&mut r, &acc_guess);
            if let Op::Add(l) = &o { acc_guess.push(l.clone()) }
            ops.push(o);
        }
        let opsj: Vec<Value> = ops.iter().map(op_json).collect();
        let mut pending: Vec<(String, Value, bool)> = vec![];
        let mut disturbed = false;
        let mut evals = 0u64;
        let res = {
            let ops_ref = &ops;
            run_history(
                ops_ref,
                |l, req, got, i| {
                    evals += 1;
                    // model: incremental blocker over the Add ops seen so far (no optimize so far is checked by caller)
                    let adds: Vec<FilterDump> = ops_ref[..=i].iter().filter_map(|o| if let Op::Add(line) = o { NetworkFilter::parse(line, true, Default::default()).ok().map(|f| dump_filter(&f)) } else { None }).collect();
                    let had_opt = ops_ref[..=i].iter().any(|o| matches!(o, Op::Optimize));
                    disturbed = ops_ref[..=i].iter().any(|o| matches!(o, Op::Optimize | Op::DiscardAll | Op::Use(_) | Op::Enable(_) | Op::Disable(_)));
                    if had_opt || adds.len() > 14 { return }
                    let rules: Vec<NetworkFilter> = l.accepted.iter().filter_map(|x| NetworkFilter::parse(x, true, Default::default()).ok()).collect();
                    let all_rules: Vec<NetworkFilter> = ops_ref[..=i].iter().filter_map(|o| if let Op::Add(line) = o { NetworkFilter::parse(line, true, Default::default()).ok() } else { None }).collect();
                    let matching: Vec<u64> = all_rules.iter().filter(|f| rule_matches(f, req)).map(|f| f.id).collect();
                    let accepted_ids: Vec<u64> = rules.iter().map(|f| f.id).collect();
                    let tags: Vec<String> = l.tags.iter().cloned().collect();
                    let probes = clist(&req.get_tokens_for_match().copied().collect::<Vec<u64>>(), |x| cn(*x));
                    let expr = format!(
                        "let r := add_all seahash (tags_with_set seahash (blocker_new seahash []) {}) {} in list_eqb N.eqb (ids_of (snd r)) {} && verdict_eqb (blocker_check (fun f => memN (rid f) {}) {} (fst r)) (Build_verdict {} {} {} {})",
                        cstrs(&tags), coq_rules(&adds), clist(&accepted_ids, |x| cn(*x)), clist(&matching, |x| cn(*x)), probes,
                        cbool(got.v.matched), cbool(got.v.important), cbool(got.v.exception), cbool(got.v.filter));
                    pending.push((expr, json!({"fn": "add_all/blocker_check", "ops": opsj[..=i].to_vec(), "impl": vjson(&got.v), "accepted": l.accepted}), !matching.is_empty() && disturbed));
                },
                |_, _| {},
            )
        };
        sm.oracle_evaluations += evals;
        if let Some((i, m)) = res {
            sm.failure(None, &format!("op #{}: {}", i, m), json!({"ops": opsj[..=i].to_vec()}));
        }
        // note: tags are installed before the adds in the model; the theorem
        // C07_verdict_after_history / Represents make the order irrelevant
        for (e, d, nt) in pending.into_iter().take(3) {
            cs.stat("incremental");
            cs.case(e, d, nt);
        }
        // cache invariant on the final dumped state, evaluated in Coq
        {
            let rs = resources();
            let mut l = Live { b: Blocker::new(vec![], &BlockerOptions { enable_optimizations: false }), accepted: vec![], tags: BTreeSet::new(), wrongly_rejected: None };
            for o in ops.iter() {
                apply(&mut l, o);
                if let Op::Query(u, s, t) = o { if let Ok(req) = Request::new(u, s, t) { let _ = l.b.check(&req, &rs); } }
            }
            let (heap, cache) = cache_dump(&l.b);
            cs.stat("cache_inv");
            cs.case(
                format!("dump_inv_b {} {}", clist(&heap, |(a, t)| format!("({}, {})", cn(*a), hxs(t))), clist(&cache, |(a, t)| format!("({}, {})", cn(*a), hxs(t)))),
                json!({"fn": "CacheInv on dumped state", "ops": opsj, "cache_entries": cache.len(), "stored_rules": heap.len()}),
                !cache.is_empty(),
            );
        }
        // the whole state after the history, against the model's history semantics (C06_History_Model.hrun:
        // add_filter / tag calls / optimize() in the order they happened): every one of the eight lists,
        // bucket by bucket, as (id, mask, patterns)
        {
            let hops: Vec<String> = ops.iter().filter_map(|o| match o {
                Op::Add(line) => NetworkFilter::parse(line, true, Default::default()).ok().map(|f| format!("HAdd {}", coq_rule(&dump_filter(&f)))),
                Op::Use(t) => Some(format!("HUse {}", cstrs(t))),
                Op::Enable(t) => Some(format!("HEnable {}", cstrs(t))),
                Op::Disable(t) => Some(format!("HDisable {}", cstrs(t))),
                Op::Optimize => Some("HOptimize".to_string()),
                _ => None,
            }).collect();
            let n_adds = hops.iter().filter(|h| h.starts_with("HAdd")).count();
            let optimized = ops.iter().any(|o| matches!(o, Op::Optimize));
            if n_adds <= 18 && !optimized {
                let mut l = Live { b: Blocker::new(vec![], &BlockerOptions { enable_optimizations: false }), accepted: vec![], tags: BTreeSet::new(), wrongly_rejected: None };
                for o in ops.iter() {
                    apply(&mut l, o);
                }
                let d = dump_blocker(&l.b);
                // the INVARIANT of the model (every loaded rule of a list sits under one of its own
                // tokens per token group, nothing else is stored, buckets sorted by id), evaluated on the
                // dumped implementation state against the abstract state of the history (loaded rules,
                // set-algebra tags) -- not the exact layout, which depends on harmless tie-breaks of the
                // best-token choice
                let model_lists = [
                    ("csp", "of_cat CCsp L"), ("exceptions", "of_cat CException L"), ("importants", "of_cat CImportant L"),
                    ("redirects", "filter is_redirect (live L)"), ("removeparam", "of_cat CRemoveparam L"),
                    ("filters_tagged", "tagged_active T (of_cat CTagged L)"), ("filters", "of_cat CNormal L"), ("generic_hide", "of_cat CGenericHide L"),
                ];
                let mut conj = vec![];
                for (name, sel) in model_lists.iter() {
                    let lst = &d.lists.iter().find(|(n, _)| n == name).unwrap().1;
                    conj.push(format!("well_indexed_b seahash ({}) {}", sel, coq_dump(lst)));
                }
                let mut tags_impl = l.b.tags_enabled();
                tags_impl.sort();
                cs.stat("history_state");
                cs.case(
                    format!("let ops := [{}] in let L := loaded ops in let T := tagset ops in {} && (let I := {} in forallb (fun t => mem_str t T) I && forallb (fun t => mem_str t I) T)",
                        hops.join("; "), conj.join(" && "), cstrs(&tags_impl)),
                    json!({"fn": "invariant of the state after the history (WellIndexed per list, tag set)", "ops": opsj}),
                    n_adds >= 3,
                );
            } else if optimized {
                cs.stat("history_with_optimize_state_not_compared");
            }
        }
        for _ in 0..4 {
            engine_level(&mut r, &mut sm);
        }
    }
    cs.finish();
    sm.write(&a.out, &cs);
}
