//! C12 — request normalisation.
//! Correspondence: (1) the URL scanner's `(serialization, scheme_end, host_start, host_end)` (hook
//! `url_parser::verif::scan`) vs the Gallina `scan`; (2) every public field of `Request::new`
//! (+ url_lower_cased, original_url) vs `Request_new`; (3) `Request::preparsed` on the parts of a
//! parsed request and on arbitrary strings vs `Request_preparsed`.  The third-party oracles are
//! handed to the model as finite tables computed by the real crates: `idna::domain_to_ascii` for
//! every candidate host text of the input, `get_host_domain` for the two hosts (contract-checked
//! here), `fast_hash` for every suffix of the source hostname.
//! Oracle (independent of Coq): no panic anywhere; a reference split of the URL text (WHATWG
//! authority rules) for the expected host; re-scan of the normalised URL; the `url` crate as second
//! opinion; third-party from the definition; scheme flags; Request::new vs Request::preparsed
//! (all fields, engine verdicts); an engine holding the single rule `||x^` for x = the host of the
//! reference split and for every other host-like name of the authority text (credentials, text
//! after a backslash) must match exactly when x is the host or a parent domain of it.
//! Every fourth input is a backslash/'@' authority (`gen_bs_at_url`): all three case kinds and the
//! whole oracle run on it.
use adblock::request::{Request, RequestType};
use adblock::url_parser::verif::{get_host_domain, scan};
use adblock::utils::fast_hash;
use adblock::Engine;
use implrun::*;
use serde_json::{json, Value};

const RT_NAMES: &[&str] = &[
    "Beacon", "Csp", "Document", "Dtd", "Fetch", "Font", "Image", "Media", "Object", "Other", "Ping",
    "Script", "Stylesheet", "Subdocument", "Websocket", "Xlst", "Xmlhttprequest",
];
fn rt_index(t: &RequestType) -> usize {
    let n = format!("{:?}", t);
    RT_NAMES.iter().position(|x| *x == n).expect("unknown RequestType variant")
}

// ------------------------------------------------------------------ reference (oracle side)
const SPECIAL: &[&str] = &["http", "https", "ws", "wss", "ftp", "gopher"];

#[derive(Debug, Clone)]
struct RefParts {
    scheme: String,
    special: bool,
    /// text between the slashes and the first of / ? # (\ for special schemes)
    authority: String,
    /// authority after the last '@', up to the first ':' outside [...]
    raw_host: String,
}

/// WHATWG-style split of the URL text, written independently of the crate's scanner.
/// None: no scheme, `file:`, or a non-special scheme without `//`.
fn ref_parts(url: &str) -> Option<RefParts> {
    let t = url.trim_matches(|c: char| c <= ' ');
    let colon = t.find(':')?;
    let scheme_raw = &t[..colon];
    let mut it = scheme_raw.chars();
    if !it.next()?.is_ascii_alphabetic() {
        return None;
    }
    if !scheme_raw.chars().all(|c| c.is_ascii_alphanumeric() || c == '+' || c == '-' || c == '.') {
        return None;
    }
    let scheme = scheme_raw.to_ascii_lowercase();
    if scheme == "file" {
        return None;
    }
    let special = SPECIAL.contains(&scheme.as_str());
    let after = &t[colon + 1..];
    let rest = if special {
        after.trim_start_matches(|c| c == '/' || c == '\\')
    } else {
        after.strip_prefix("//")?
    };
    let end = rest.find(|c| c == '/' || c == '?' || c == '#' || (special && c == '\\')).unwrap_or(rest.len());
    let authority = &rest[..end];
    let hostport = match authority.rfind('@') {
        Some(i) => &authority[i + 1..],
        None => authority,
    };
    let mut inside = false;
    let mut hend = hostport.len();
    for (i, c) in hostport.char_indices() {
        match c {
            '[' => inside = true,
            ']' => inside = false,
            ':' if !inside => {
                hend = i;
                break;
            }
            _ => {}
        }
    }
    Some(RefParts { scheme, special, authority: authority.to_string(), raw_host: hostport[..hend].to_string() })
}

fn has_ignored(s: &str) -> bool {
    s.contains(|c| c == '\t' || c == '\n' || c == '\r')
}
/// bytes of an idna answer that make the (repaired) scanner reject the host
fn rejected_byte(b: u8) -> bool {
    b <= b' ' || b == 0x7f || b"#/:<>?@[\\]^|".contains(&b)
}

fn strip_ignored(s: &str) -> String {
    s.chars().filter(|c| !matches!(c, '\t' | '\n' | '\r')).collect()
}

/// The host the request must report, from the reference split of the URL text: tab/LF/CR dropped,
/// copied when ASCII, idna image otherwise; None = no (valid) host, the request must be rejected.
fn expected_host(url: &str) -> Option<String> {
    let p = ref_parts(url)?;
    let h = strip_ignored(&p.raw_host);
    if h.is_empty() {
        return None;
    }
    if h.is_ascii() {
        return Some(h);
    }
    let e = idna::domain_to_ascii(&h).ok()?;
    if e.is_empty() || e.bytes().any(rejected_byte) {
        return None;
    }
    Some(e)
}

/// Statistics only: inputs of the former findings F21 / F25 (fixed in /repo 115106e). They are
/// ordinary cases now; a regression is reported as a violation (class None).
fn former_class(url: &str) -> Option<&'static str> {
    let p = ref_parts(url)?;
    if has_ignored(&p.authority) {
        return Some("former_F21_ignored_chars_in_authority");
    }
    let h = strip_ignored(&p.raw_host);
    if !h.is_ascii() {
        if let Ok(e) = idna::domain_to_ascii(&h) {
            if e.bytes().any(rejected_byte) {
                return Some("former_F25_idna_answer_with_delimiter");
            }
        }
    }
    None
}

fn domain_of(host: &str) -> String {
    let (a, b) = get_host_domain(host);
    host.get(a..b).unwrap_or("").to_string()
}

/// host is plain enough for the `url` crate to agree byte for byte: lower-case LDH / IDN labels
/// (last label not numeric), or a canonical IPv4 / bracketed canonical IPv6 literal
fn plain_host(h: &str) -> bool {
    if h.is_empty() {
        return false;
    }
    if let Some(inner) = h.strip_prefix('[').and_then(|x| x.strip_suffix(']')) {
        return !inner.contains('.') && inner.parse::<std::net::Ipv6Addr>().map(|a| a.to_string() == inner).unwrap_or(false);
    }
    if let Ok(a) = h.parse::<std::net::Ipv4Addr>() {
        return a.to_string() == h;
    }
    let ok_chars = h.chars().all(|c| c.is_ascii_lowercase() || c.is_ascii_digit() || c == '.' || c == '-' || (!c.is_ascii() && c.is_alphabetic() && !c.is_uppercase()));
    let last = h.trim_end_matches('.').rsplit('.').next().unwrap_or("");
    ok_chars && !last.is_empty() && !last.chars().all(|c| c.is_ascii_digit()) && !last.starts_with("0x") && !h.contains("..") && !h.starts_with('.')
}

// ------------------------------------------------------------------ generators
const SCHEMES: &[&str] = &[
    "http", "https", "ws", "wss", "http", "https", "https", "ftp", "gopher", "file", "data", "about", "blob",
    "HTTP", "hTTps", "WSS", "Ws", "foo", "chrome-extension", "a+b.c-d", "1http", "ht tp", "hé", "",
];
const SEPS: &[&str] = &["://", "://", "://", "://", "://", ":", ":/", ":///", ":\\\\", ":/\\", "//", ""];
const USERINFO: &[&str] = &[
    "user", "user:pass", ":", "user:", ":pass", "us%20er", "a b", "é", "u:p:q", "", "u@v", "a\tb", "\t\t", "a\n:b",
    "<>\"`{}|^[]", "\u{7f}\u{1}", "例え:😀", "A:B",
];
const XHOSTS: &[&str] = &[
    "EXAMPLE.com", "Foo.COM", "127.0.0.1", "10.0.0.1", "[::1]", "[2001:db8::1]", "[::ffff:1.2.3.4]", "é.com", "bücher.de",
    "例え.jp", "EXÄMPLE.com", "ａ.com", "é／b.com", "é：b.com", "é？b.com", "é＃b.com", "é＠b.com", "é＼b.com", "\u{200d}.com",
    "example.com.", "x.com..", ".x.com", "", "a%41.com", "a%2fb.com", "a\tb.com", "a\nb.com", "\rx.com", "é\tx.com",
    "a b.com", "a_b.com", "xn--9ca.com", "[::1", "a]b[c:d", "a[b:c]d.com", "co.uk", "uk", "example.co.uk.", "1.2.3",
    "0x7f.1", "sub.é.com", "É.COM", "ß.de", "a.b.c.d.e.f.example.com", "www.ads.net", "-a-.com", "a..b",
];
const PORTS: &[&str] = &["", "", "", ":80", ":443", ":", ":abc", ":8080", ":0"];
const TAILS: &[&str] = &[
    "", "/", "/ad.js", "/ads/banner.png?x=1", "?q=1", "#frag", "/path/é/x", "/a b", "\\back\\slash", "/x?u=http://e.com/@y",
    "/a:b@c", "/%41%zz", "/UPPER/Case?Q=V#F", "/x\ty", "//double//", "/😀", "/a?b#c?d#e", "/\u{1}\u{7f}", ":",
];
const WS: &[&str] = &["", "", "", "", " ", "\t", "\n", " \r\n", "\u{0}", "\u{1f} ", "\u{a0}", "\u{7f}"];

struct GenUrl {
    s: String,
}

fn gen_host(r: &mut Rng) -> String {
    match r.below(10) {
        0..=4 => r.pick(gen::HOSTS).to_string(),
        5 => r.pick(gen::HOSTS).to_ascii_uppercase(),
        6 => format!("{}.", r.pick(gen::HOSTS)),
        _ => r.pick(XHOSTS).to_string(),
    }
}

fn gen_url(r: &mut Rng) -> GenUrl {
    let mut s = String::new();
    s.push_str(r.pick(WS));
    let plain = r.chance(1, 2);
    if plain {
        // common shape: scheme://host[:port]/path
        s.push_str(r.pick(&["http", "https", "ws", "wss", "https", "http", "ftp", "foo"]));
        s.push_str("://");
        if r.chance(1, 6) {
            s.push_str(r.pick(USERINFO));
            s.push('@');
        }
        s.push_str(&gen_host(r));
        s.push_str(r.pick(PORTS));
        s.push_str(r.pick(TAILS));
    } else if r.chance(1, 10) {
        // very long components: lengths around the powers of two an offset type might wrap at
        let total = r.pick(&[128usize, 255, 256, 257, 258, 260, 261]);
        let base = r.pick(&["http", "https", "ws", "wss", "ftp", "x", "HTTP"]);
        match r.below(3) {
            0 => {
                // scheme of `total` characters beginning like a known one
                let fill = r.pick(&["x", "s", "-", "+", "1"]);
                let mut sch = base.to_string();
                while sch.len() < total { sch.push_str(fill); }
                s.push_str(&sch);
                s.push_str("://");
                s.push_str(&gen_host(r));
            }
            1 => {
                s.push_str(r.pick(&["http", "https", "ws"]));
                s.push_str("://");
                s.push_str(&"u".repeat(total));
                s.push('@');
                s.push_str(&gen_host(r));
            }
            _ => {
                s.push_str(r.pick(&["http", "https", "wss"]));
                s.push_str("://");
                s.push_str(&"a".repeat(total));
                s.push('.');
                s.push_str(&gen_host(r));
            }
        }
        s.push_str(r.pick(PORTS));
        s.push_str(r.pick(TAILS));
    } else {
        s.push_str(r.pick(SCHEMES));
        s.push_str(r.pick(SEPS));
        if r.chance(1, 3) {
            s.push_str(r.pick(USERINFO));
            s.push('@');
            if r.chance(1, 6) {
                s.push_str(r.pick(USERINFO));
                s.push('@');
            }
        }
        s.push_str(&gen_host(r));
        s.push_str(r.pick(PORTS));
        s.push_str(r.pick(TAILS));
    }
    s.push_str(r.pick(WS));
    GenUrl { s }
}

// ------------------------------------------------------------------ backslash / '@' authorities
// URL texts whose authority mixes backslashes and '@' signs in every relative order and
// multiplicity, for special and non-special schemes, with and without credentials and ports.
const BA_SPECIAL: &[&str] = &["http", "https", "ws", "wss", "http", "https", "ws", "wss", "HTTPS", "Ws", "ftp"];
const BA_NONSPECIAL: &[&str] = &["foo", "chrome-extension", "a+b.c-d", "blob", "httpx"];
const BA_SLASHES: &[&str] = &["//", "//", "//", "//", "//", "\\\\", "/\\", "\\/", "/", "\\", "", "///", "\\\\\\", "//\\"];
const BA_NAMES: &[&str] = &[
    "example.com", "sub.example.com", "ads.net", "www.ads.net", "foo.com", "x.com", "a.b.example.co.uk", "evil.org", "host", "other",
    "a", "b", "c", "user", "http", "https", "ws", "127.0.0.1", "co.uk", "example.net", "track.net", "é.com", "EXAMPLE.com", "[::1]",
];
const BA_CREDS: &[&str] = &["user", "user:pw", ":pw", "user:", "u:p:q", "http", "https:", "example.com", "ads.net:80", "x.com:pw", ""];
const BA_PORTS: &[&str] = &["", "", "", ":80", ":8080", ":", ":443"];
const BA_TAILS: &[&str] = &[
    "", "", "/", "/path", "\\path", "/a\\b@c", "/x@y.com/z", "?q=a@b.com", "?u=\\\\evil.org", "#f@g\\h", "/ad.js", "\\@other", "/@x.com", "\\\\x.com/y", "?\\@x.com",
];

fn ba_name(r: &mut Rng) -> String {
    r.pick(BA_NAMES).to_string()
}

/// One authority text. Half of them instances of the named shapes (`\@h`, `@\h`, `user\@host`,
/// `host\@other`, `a@b@c`, `a\b@c`, backslash after the host / instead of '/'), half random
/// sequences over {name, '@', '\', ':port', credentials}.
fn gen_bs_at_authority(r: &mut Rng) -> String {
    if r.chance(1, 2) {
        let (a, mut b, mut c) = (ba_name(r), ba_name(r), ba_name(r));
        // related names: a parent / child domain of the first name among the others
        if r.chance(1, 3) {
            let rel = match (r.below(3), a.split_once('.')) {
                (0, Some((_, parent))) if parent.contains('.') => parent.to_string(),
                (1, _) => format!("www.{}", a),
                _ => format!("sub.{}", a),
            };
            if r.chance(1, 2) { b = rel } else { c = rel }
        }
        let (u, p) = (r.pick(BA_CREDS), r.pick(BA_PORTS));
        match r.below(24) {
            0 => format!("\\@{}", a),
            1 => format!("@\\{}", a),
            2 => format!("{}\\@{}", u, a),
            3 => format!("{}{}\\@{}", a, p, b),
            4 => format!("{}@{}@{}", a, b, c),
            5 => format!("{}\\{}@{}", a, b, c),
            6 => format!("{}{}\\", a, p),
            7 => format!("{}{}\\{}", a, p, b),
            8 => format!("{}@{}{}\\@{}", u, a, p, b),
            9 => format!("{}@{}{}\\{}", u, a, p, b),
            10 => format!("{}@", a),
            11 => format!("@{}{}", a, p),
            12 => format!("@@{}", a),
            13 => format!("{}@@{}{}", u, a, p),
            14 => format!("{}\\\\@{}", a, b),
            15 => format!("\\\\@{}", a),
            16 => format!("{}@{}@{}\\{}", u, a, b, c),
            17 => format!("{}\\{}\\{}@{}", a, b, c, u),
            18 => format!("{}@\\{}", a, b),
            19 => format!("{}@{}\\", u, a),
            20 => format!("{}@{}{}", u, a, p),
            21 => format!("{}\\:{}@{}", a, b, c),
            22 => format!("{}:{}\\@{}", a, b, c),
            _ => format!("{}@{}:{}@{}\\@{}", a, b, u, c, a),
        }
    } else {
        let n = r.range(1, 6);
        let mut s = String::new();
        for _ in 0..n {
            match r.below(10) {
                0..=3 => s.push_str(&ba_name(r)),
                4 | 5 => s.push('@'),
                6 | 7 => s.push('\\'),
                8 => s.push_str(r.pick(&[":80", ":", ":8080", ":pw"])),
                _ => s.push_str(r.pick(BA_CREDS)),
            }
        }
        s
    }
}

fn gen_bs_at_url(r: &mut Rng) -> String {
    let special = r.chance(3, 4);
    let mut s = String::new();
    if r.chance(1, 10) {
        s.push_str(r.pick(WS));
    }
    s.push_str(if special { r.pick(BA_SPECIAL) } else { r.pick(BA_NONSPECIAL) });
    s.push(':');
    // a non-special scheme has an authority only after "//": keep that the common case
    s.push_str(if !special && r.chance(3, 4) { "//" } else { r.pick(BA_SLASHES) });
    s.push_str(&gen_bs_at_authority(r));
    s.push_str(r.pick(BA_TAILS));
    s
}

/// Text between the scheme's slashes and the first of / ? # — for a special scheme this is wider
/// than the authority when it contains a backslash. None: no scheme.
fn wide_authority(url: &str) -> Option<&str> {
    let t = url.trim_matches(|c: char| c <= ' ');
    let colon = t.find(':')?;
    let rest = t[colon + 1..].trim_start_matches(|c| c == '/' || c == '\\');
    Some(&rest[..rest.find(|c| c == '/' || c == '?' || c == '#').unwrap_or(rest.len())])
}

/// Relative order / multiplicity of '\' and '@' in the wide authority (generator statistics).
fn bs_at_shape(url: &str) -> &'static str {
    let w = wide_authority(url).unwrap_or("");
    let (nb, na) = (w.matches('\\').count(), w.matches('@').count());
    match (nb, na) {
        (0, 0) => "bsat_neither",
        (0, 1) => "bsat_one_at_only",
        (0, _) => "bsat_several_at_only",
        (_, 0) => "bsat_backslash_only",
        _ => {
            let (fb, fa, la) = (w.find('\\').unwrap(), w.find('@').unwrap(), w.rfind('@').unwrap());
            if fb < fa { "bsat_backslash_before_every_at" } else if fb > la { "bsat_backslash_after_every_at" } else { "bsat_backslash_between_ats" }
        }
    }
}

/// Source URLs for the backslash/'@' inputs: the expected host, one of the other names of the
/// authority text (credentials, text after the backslash), or unrelated.
fn gen_bs_at_source(r: &mut Rng, url: &str) -> String {
    let names = host_like_names(wide_authority(url).unwrap_or(""));
    match r.below(8) {
        0 | 1 | 2 => match expected_host(url) {
            Some(h) => format!("https://{}{}/page", r.pick(&["", "www.", "sub."]), h),
            None => "https://example.com/".to_string(),
        },
        3 | 4 | 5 if !names.is_empty() => format!("https://{}/", names[r.below(names.len())]),
        6 => String::new(),
        _ => gen_source(r, url),
    }
}

/// Lower-case LDH names (labels of letters, digits, '-', joined by dots) occurring in `text`.
fn host_like_names(text: &str) -> Vec<String> {
    let mut v: Vec<String> = vec![];
    for n in text.split(|c: char| !(c.is_ascii_lowercase() || c.is_ascii_digit() || c == '.' || c == '-')) {
        if ldh_lower(n) && !v.iter().any(|x| x == n) {
            v.push(n.to_string());
        }
    }
    v
}
fn ldh_lower(h: &str) -> bool {
    !h.is_empty()
        && h.len() <= 60
        && h.split('.').all(|l| !l.is_empty() && !l.starts_with('-') && !l.ends_with('-') && l.chars().all(|c| c.is_ascii_lowercase() || c.is_ascii_digit() || c == '-'))
}

/// `||x^` applies to a request exactly when the scheme is one the engine matches and `x` (a leading
/// "www." is not part of a hostname-anchored rule) is the request host or a parent domain of it.
fn host_rule_expected(request_host: &str, x: &str, supported: bool) -> bool {
    let x = x.trim_start_matches("www.");
    supported && !x.is_empty() && (request_host == x || request_host.ends_with(&format!(".{}", x)))
}

const SOUP: &[&str] = &[
    ":", "/", "\\", "@", "?", "#", "[", "]", ".", "%", "\t", "\n", "\r", " ", "a", "Z", "é", "例", "😀", "\u{0}", "\u{7f}",
    "／", "：", "http", "ws", "//", "://", "x.com", "%41", "-", "+", "0", "\u{80}", "\u{7ff}", "\u{800}", "\u{ffff}",
    "\u{10000}", "\u{10ffff}", "ß", "\u{200d}",
];
fn gen_soup(r: &mut Rng) -> String {
    let n = r.range(0, 10);
    let mut s = String::new();
    for _ in 0..n {
        s.push_str(r.pick(SOUP));
    }
    s
}

fn gen_source(r: &mut Rng, url: &str) -> String {
    match r.below(12) {
        0 => String::new(),
        1 => gen_soup(r),
        2 | 3 => {
            // same registrable domain as the request where possible
            match ref_parts(url) {
                Some(p) if !p.raw_host.is_empty() => {
                    let pre = r.pick(&["", "www.", "sub.a."]);
                    format!("https://{}{}/page", pre, p.raw_host)
                }
                _ => "https://example.com/".to_string(),
            }
        }
        4 => {
            match ref_parts(url) {
                Some(p) if !p.raw_host.is_empty() => format!("{}://{}/", p.scheme, p.raw_host.to_ascii_uppercase()),
                _ => "https://example.com/".to_string(),
            }
        }
        5 | 6 => gen_url(r).s,
        _ => format!("https://{}{}", r.pick(gen::HOSTS), r.pick(&["", "/", "/page?x=1"])),
    }
}

const RAW_TYPES: &[&str] = &["", "unknown", "SCRIPT", "websocket ", "object_subrequest", "speculative", "xslt", "fetch"];
fn gen_type(r: &mut Rng) -> String {
    if r.chance(1, 8) {
        r.pick(RAW_TYPES).to_string()
    } else {
        r.pick(gen::TYPES).to_string()
    }
}

// ------------------------------------------------------------------ oracle tables for the model
/// idna answers for every candidate host text of `url` (only when the URL is not ASCII)
fn idna_entries(url: &str, out: &mut Vec<(String, Option<String>)>) {
    if url.is_ascii() {
        return;
    }
    let t = url.trim_matches(|c: char| c <= ' ');
    let every_end = has_ignored(t);
    let mut starts = vec![0usize];
    let mut ends = vec![t.len()];
    for (i, c) in t.char_indices() {
        if matches!(c, '/' | '\\' | '@' | ':') {
            starts.push(i + c.len_utf8());
        }
        if matches!(c, ':' | '/' | '?' | '#' | '\\') || every_end {
            ends.push(i);
        }
    }
    for &a in &starts {
        for &b in &ends {
            if a < b && b - a <= 2000 {
                let s = &t[a..b];
                if !s.is_ascii() && !out.iter().any(|(k, _)| k == s) {
                    out.push((s.to_string(), idna::domain_to_ascii(s).ok()));
                }
                let f = strip_ignored(s);
                if !f.is_ascii() && !out.iter().any(|(k, _)| *k == f) {
                    let v = idna::domain_to_ascii(&f).ok();
                    out.push((f, v));
                }
            }
        }
    }
}
fn c_idna(tab: &[(String, Option<String>)]) -> String {
    if tab.is_empty() {
        return "(fun _ => None)".into();
    }
    format!("(oracle_of {} None)", clist(tab, |(k, v)| format!("({}, {})", hxs(k), copt(v, |s| hxs(s)))))
}

/// psl answers for the hosts of the scanned URLs; every answer is contract-checked
fn psl_entries(urls: &[&str], out: &mut Vec<(String, (usize, usize))>, sm: &mut Summary) {
    for u in urls {
        if let Ok((ser, _, hs, he)) = scan(u) {
            if hs < he {
                if let Some(h) = ser.get(hs..he) {
                    let (a, b) = get_host_domain(h);
                    let ok = a <= b && b == h.len() && (a == 0 || h.as_bytes()[a - 1] == b'.');
                    if !ok {
                        sm.failure(None, &format!("psl contract violated: get_host_domain({:?}) = ({}, {})", h, a, b), json!({"kind": "psl", "host": h}));
                    }
                    if !out.iter().any(|(k, _)| k == h) {
                        out.push((h.to_string(), (a, b)));
                    }
                }
            }
        }
    }
}
fn c_psl(tab: &[(String, (usize, usize))]) -> String {
    format!("(oracle_of {} (O, O))", clist(tab, |(k, (a, b))| format!("({}, ({}, {}))", hxs(k), cnat(*a), cnat(*b))))
}

/// fast_hash of every suffix (at every char boundary, not only after dots) of `s`
fn c_hash(s: &str) -> String {
    let mut tab = vec![];
    for (i, _) in s.char_indices() {
        tab.push((s[i..].to_string(), fast_hash(&s[i..])));
    }
    format!("(oracle_of {} 0)", clist(&tab, |(k, v)| format!("({}, {})", hxs(k), cn(v))))
}

fn c_request_eqb(req: &Request) -> String {
    format!(
        "(fun r => request_eqb r {} {} {} {} {} {} {} {} {} {})",
        cn(rt_index(&req.request_type)),
        cbool(req.is_http),
        cbool(req.is_https),
        cbool(req.is_supported),
        cbool(req.is_third_party),
        hxs(&req.url),
        hxs(&req.hostname),
        copt(&req.source_hostname_hashes, |v| clist(v, |h| cn(h))),
        hxs(adblock::request::verif::url_lower_cased(req)),
        hxs(adblock::request::verif::original_url(req)),
    )
}

fn err_code(e: &str) -> u32 {
    match e {
        "invalid international domain name" => 1,
        "relative URL without a base" => 2,
        "file URLs are not supported" => 3,
        "Expected more characters" => 4,
        _ => 99,
    }
}

// ------------------------------------------------------------------ engine for the verdict oracle
fn engine() -> Engine {
    let rules = [
        "||example.com^",
        "||ads.net^$third-party",
        "/ad.js$~third-party",
        "track$websocket",
        "||foo.com^$domain=example.com",
        "pixel$image",
        "||xn--9ca.com^",
        "@@||sub.example.com^",
        "/ads/banner$script,image",
        "||x.com^$xhr,domain=~foo.com",
        "|ws://",
        "|https://$subdocument",
        "banner.png$important",
        "||127.0.0.1^",
    ];
    Engine::from_rules(rules.iter(), Default::default())
}

fn verdict(e: &Engine, r: &Request) -> Value {
    let b = e.check_network_request(r);
    json!({"matched": b.matched, "important": b.important, "redirect": b.redirect, "exception": b.exception, "filter": b.filter, "rewritten": b.rewritten_url})
}

fn req_fields(r: &Request) -> Value {
    json!({"type": format!("{:?}", r.request_type), "is_http": r.is_http, "is_https": r.is_https, "is_supported": r.is_supported,
           "is_third_party": r.is_third_party, "url": r.url, "hostname": r.hostname,
           "hashes": r.source_hostname_hashes, "lower": adblock::request::verif::url_lower_cased(r), "tokens": r.get_tokens()})
}

/// Counters of the `||host^` engine probes of one oracle call.
#[derive(Default)]
struct Probes {
    host_rule: u64,
    host_rule_matched: u64,
    decoy_rule: u64,
    decoy_rule_matched: u64,
}

/// All oracle checks on one (url, source, type); returns the list of (class, what).
fn oracle(e: &Engine, url: &str, src: &str, ty: &str, probes: &mut Probes) -> Vec<(Option<&'static str>, String)> {
    let mut fails: Vec<(Option<&'static str>, String)> = vec![];
    let (u2, s2, t2) = (url.to_string(), src.to_string(), ty.to_string());
    let built = match catch(move || Request::new(&u2, &s2, &t2)) {
        Ok(b) => b,
        Err(m) => {
            fails.push((None, format!("Request::new panicked: {}", m)));
            return fails;
        }
    };
    let class: Option<&'static str> = None;
    let parts = ref_parts(url);
    let expect = expected_host(url);
    match (&built, &expect) {
        (Ok(r), Some(h)) => {
            if &r.hostname != h {
                fails.push((class, format!("hostname {:?} but the host of the URL text is {:?}", r.hostname, h)));
            }
        }
        (Ok(r), None) => fails.push((class, format!("request built with hostname {:?} although the URL text has no (valid) host", r.hostname))),
        (Err(_), Some(h)) => fails.push((class, format!("request rejected although the URL text has host {:?}", h))),
        (Err(_), None) => {}
    }
    let Ok(req) = built else { return fails };
    // hostname is the host component of the normalised URL (independent re-split of req.url)
    match ref_parts(&req.url) {
        Some(p) if p.raw_host == req.hostname => {}
        other => fails.push((class, format!("hostname {:?} is not the host component {:?} of the normalised URL {:?}", req.hostname, other.map(|p| p.raw_host), req.url))),
    }
    if !req.hostname.is_ascii() {
        fails.push((class, format!("hostname {:?} is not ASCII", req.hostname)));
    }
    // the engine's answer for `||x^`, x = the host of the URL text (must match when the scheme is
    // matched at all) and x = every other host-like name standing between the slashes and the first
    // of / ? # (credentials, text after a backslash: must not match unless x is a parent domain)
    if let (Some(p), Some(h)) = (&parts, &expect) {
        if ldh_lower(h) {
            let supported = ["http", "https", "ws", "wss"].contains(&p.scheme.as_str());
            let mut names = vec![h.clone()];
            for n in host_like_names(wide_authority(url).unwrap_or("")) {
                if names.len() < 5 && !names.contains(&n) {
                    names.push(n);
                }
            }
            for (k, x) in names.iter().enumerate() {
                let line = format!("||{}^", x);
                if net::parse_net(&line).is_none() {
                    continue;
                }
                let want = host_rule_expected(h, x, supported);
                // asked as a script request: the request type under test may be one no rule applies to (csp_report)
                let (l2, u2, s2) = (line.clone(), url.to_string(), src.to_string());
                match catch(move || Request::new(&u2, &s2, "script").map(|r2| Engine::from_rules([&l2], Default::default()).check_network_request(&r2).matched).unwrap_or(false)) {
                    Err(m) => fails.push((None, format!("engine with {:?} panicked: {}", line, m))),
                    Ok(got) => {
                        if k == 0 { probes.host_rule += 1; probes.host_rule_matched += got as u64 } else { probes.decoy_rule += 1; probes.decoy_rule_matched += got as u64 }
                        if got != want {
                            fails.push((None, format!("engine with the single rule {:?}: matched={} on {:?} (reported hostname {:?}); the host of the URL text is {:?}, scheme {:?}: expected matched={}", line, got, req.url, req.hostname, h, p.scheme, want)));
                        }
                    }
                }
            }
        }
    }
    // the url crate as second opinion
    if let Some(p) = &parts {
        if ["http", "https", "ws", "wss"].contains(&p.scheme.as_str()) && plain_host(&strip_ignored(&p.raw_host)) {
            match url::Url::parse(url) {
                Ok(u) => {
                    if u.host_str() != Some(req.hostname.as_str()) {
                        fails.push((class, format!("hostname {:?} but the url crate says {:?}", req.hostname, u.host_str())));
                    }
                }
                Err(_) => {}
            }
        }
        // scheme flags
        let sch = p.scheme.as_str();
        let want_sup = ["http", "https", "ws", "wss"].contains(&sch);
        if req.is_supported != want_sup || req.is_http != (sch == "http") || req.is_https != (sch == "https") {
            fails.push((None, format!("scheme {:?}: is_supported={} is_http={} is_https={}", sch, req.is_supported, req.is_http, req.is_https)));
        }
        let ws = sch == "ws" || sch == "wss";
        let want_ty = if ws { RequestType::Websocket } else { adblock::request::verif::cpt_match_type(ty) };
        if req.request_type != want_ty {
            fails.push((None, format!("scheme {:?} type {:?}: request_type {:?}", sch, ty, req.request_type)));
        }
    }
    // third party from the definition
    let (s3, t3) = (src.to_string(), ty.to_string());
    let src_req = catch(move || Request::new(&s3, "", &t3));
    let src_host: String = match &src_req {
        Ok(Ok(s)) => s.hostname.clone(),
        Ok(Err(_)) => String::new(),
        Err(m) => {
            fails.push((None, format!("Request::new on the source panicked: {}", m)));
            String::new()
        }
    };
    let src_expect: Option<String> = expected_host(src);
    let sclass: Option<&'static str> = None;
    // registrable domain of the host of the URL text (of the reported host when the text has none:
    // already reported above) against the registrable domain of the source's host
    let req_host_ref: &str = expect.as_deref().unwrap_or(&req.hostname);
    let want_tp = match &src_expect {
        None => true,
        Some(sh) => domain_of(sh) != domain_of(req_host_ref),
    };
    if req.is_third_party != want_tp {
        fails.push((class.or(sclass), format!("is_third_party={} but source host {:?} / request host {:?}", req.is_third_party, src_expect, req.hostname)));
    }
    // source hostname hashes = hashes of the hostname and of every non-empty dot-suffix
    let want_hashes: Option<Vec<u64>> = if src_host.is_empty() {
        None
    } else {
        let mut v = vec![fast_hash(&src_host)];
        let labels: Vec<&str> = src_host.split('.').collect();
        for i in 1..labels.len() {
            let suf = labels[i..].join(".");
            if !suf.is_empty() {
                v.push(fast_hash(&suf));
            }
        }
        Some(v)
    };
    if req.source_hostname_hashes != want_hashes {
        fails.push((None, format!("source_hostname_hashes {:?} but the dot-suffixes of {:?} hash to {:?}", req.source_hostname_hashes, src_host, want_hashes)));
    }
    // preparsed == new
    let (pu, ph, ps, pt, tp) = (req.url.clone(), req.hostname.clone(), src_host.clone(), ty.to_string(), req.is_third_party);
    match catch(move || Request::preparsed(&pu, &ph, &ps, &pt, tp)) {
        Err(m) => fails.push((None, format!("Request::preparsed panicked: {}", m))),
        Ok(p) => {
            if req_fields(&p) != req_fields(&req) {
                fails.push((class.or(sclass), format!("preparsed fields {} differ from new {}", req_fields(&p), req_fields(&req))));
            }
            let e1 = std::panic::AssertUnwindSafe(e);
            let (r1, r2) = (req.clone(), p.clone());
            match catch(move || (verdict(&e1, &r1), verdict(&e1, &r2))) {
                Err(m) => fails.push((None, format!("check_network_request panicked: {}", m))),
                Ok((a, b)) => {
                    if a != b {
                        fails.push((class.or(sclass), format!("engine verdict for new {} vs preparsed {}", a, b)));
                    }
                }
            }
        }
    }
    fails
}

fn main() {
    let a = args();
    let e = engine();
    if let Some(p) = &a.replay {
        let v: Value = serde_json::from_str(&std::fs::read_to_string(p).unwrap()).unwrap();
        let rp = &v["replay"];
        let (url, src, ty) = (rp["url"].as_str().unwrap_or(""), rp["source"].as_str().unwrap_or(""), rp["type"].as_str().unwrap_or(""));
        println!("url={:?} source={:?} type={:?}", url, src, ty);
        println!("scan={:?}", catch({ let u = url.to_string(); move || scan(&u) }));
        println!("request={:?}", catch({ let (u, s, t) = (url.to_string(), src.to_string(), ty.to_string()); move || Request::new(&u, &s, &t).map(|r| req_fields(&r)) }));
        if let Ok(r) = Request::new(url, src, ty) {
            println!("verdict={}", verdict(&e, &r));
        }
        let mut probes = Probes::default();
        let mut fails = oracle(&e, url, src, ty, &mut probes);
        println!("||host^ probes: host rule {} (matched {}), other names of the authority text {} (matched {})", probes.host_rule, probes.host_rule_matched, probes.decoy_rule, probes.decoy_rule_matched);
        if rp["kind"] == "preparsed" {
            let (h, sh, tp) = (rp["hostname"].as_str().unwrap_or("").to_string(), rp["source_hostname"].as_str().unwrap_or("").to_string(), rp["third_party"].as_bool().unwrap_or(false));
            let (u, t) = (url.to_string(), ty.to_string());
            if let Err(m) = catch(move || Request::preparsed(&u, &h, &sh, &t, tp)) {
                fails.push((None, format!("Request::preparsed panicked: {}", m)));
            }
        }
        for (c, w) in &fails {
            println!("fails class={:?}: {}", c, w);
        }
        if !fails.is_empty() {
            println!("VIOLATION property=C12 replay={}", p.display());
            std::process::exit(1);
        }
        return;
    }
    let mut r = Rng::new(a.seed);
    let mut cs = Cases::new(&a.out, "Generated C12_Model");
    let mut sm = Summary::default();
    sm.rule = "every fourth input: an authority mixing backslashes and '@' signs in every relative order and multiplicity (\\@h, @\\h, user\\@host, host\\@other/path, a@b@c, a\\b@c, backslash after the host / instead of '/', random sequences over name/@/\\/:port/credentials) after special (http, https, ws, wss, ftp, mixed case) and non-special schemes with 14 slash/backslash separators, with and without credentials and ports, the source drawn from the expected host / the other names of the authority text; the other inputs: structured URLs (24 scheme spellings incl. ws/wss/ftp/data/about/blob/none, 12 separators, userinfo, ports, IPv4/IPv6 literals, upper-case, percent-escaped, IDN, trailing-dot, empty and control-character hosts, backslashes, surrounding whitespace/controls) and a malformed character soup, each with a related/unrelated/absent/malformed source URL and a request type; three case kinds per input: scanner tuple, Request::new fields, Request::preparsed fields; non-trivial = the URL has an authority and (scan case) parses, (new case) yields a request, (preparsed case) the URL contains ':' or a source hostname with a dot. Oracle on every input: host from the WHATWG split of the URL text (authority ends at the first / ? # and, for special schemes, \\; credentials end at the last @), third-party from the registrable domains, and an engine holding the single rule ||x^ for x = that host and for every other host-like name of the authority text (matched iff the scheme is http/https/ws/wss and x is the host or a parent domain)".into();
    // 900 inputs of the general grammar / soup interleaved with 300 backslash-and-'@' authorities
    let n = 1200 * a.scale;
    let mut probes = Probes::default();
    // the shapes named in the property text, once each, then generated ones
    let mut fixed: Vec<&str> = vec![
        "http://\\@host/", "http://@\\host/", "https://user\\@host/", "https://host\\@other/path", "ws://a@b@c/", "wss://a\\b@c/",
        "http://example.com\\", "https://example.com\\ad.js", "http:\\\\example.com\\ad.js", "foo://user\\@host/", "foo://host\\@other/path", "foo://a\\b@c:80/x",
        "https://user:pw@ads.net:8080\\@example.com/ad.js", "https://example.com@ads.net\\@example.com/",
    ];
    fixed.reverse();
    let mut old_i = 0usize;
    for i in 0..n {
        let bs_at = i % 4 == 3;
        let (url, src) = if bs_at {
            let u = match fixed.pop() { Some(f) => f.to_string(), None => gen_bs_at_url(&mut r) };
            let s = gen_bs_at_source(&mut r, &u);
            (u, s)
        } else {
            old_i += 1;
            if old_i % 6 == 0 {
                let u = gen_soup(&mut r);
                let s = if r.chance(1, 2) { gen_soup(&mut r) } else { gen_source(&mut r, &u) };
                (u, s)
            } else {
                let u = gen_url(&mut r).s;
                let s = gen_source(&mut r, &u);
                (u, s)
            }
        };
        let ty = gen_type(&mut r);
        if bs_at {
            cs.stat("bsat_url");
            cs.stat(bs_at_shape(&url));
            match ref_parts(&url) {
                Some(p) if p.special => cs.stat("bsat_special_scheme"),
                Some(_) => cs.stat("bsat_non_special_scheme_with_authority"),
                None => cs.stat("bsat_no_authority"),
            }
            if let Some(p) = ref_parts(&url) {
                if p.authority.contains('@') { cs.stat("bsat_with_credentials") }
                if p.authority.rsplit('@').next().map_or(false, |hp| hp.contains(':')) { cs.stat("bsat_with_port") }
                if wide_authority(&url).map_or(false, |w| w.len() > p.authority.len()) { cs.stat("bsat_backslash_ends_authority") }
            }
            cs.stat(if expected_host(&url).is_some() { "bsat_expected_host" } else { "bsat_expected_rejection" });
        }
        // ---------------- oracle
        sm.oracle_evaluations += 1;
        for (c, w) in oracle(&e, &url, &src, &ty, &mut probes) {
            sm.failure(c, &w, json!({"kind": "new", "url": url, "source": src, "type": ty}));
        }
        // ---------------- correspondence: scanner
        let mut idna_tab = vec![];
        idna_entries(&url, &mut idna_tab);
        let sc = scan(&url);
        let has_auth = ref_parts(&url).map(|p| !p.authority.is_empty()).unwrap_or(false);
        cs.stat(match &sc { Ok((_, _, hs, he)) if hs < he => "scan_ok_host", Ok(_) => "scan_ok_no_host", Err(_) => "scan_err" });
        if let Some(c) = former_class(&url) { cs.stat(c) }
        if !url.is_ascii() { cs.stat("non_ascii_url") }
        let (want, code) = match &sc {
            Ok((ser, se, hs, he)) => (format!("(Some ({}, {}, {}, {}))", hxs(ser), cn(se), cn(hs), cn(he)), 0),
            Err(m) => ("None".to_string(), err_code(m)),
        };
        cs.case(
            format!("scan_eqb (scan {} {}) {} {}", c_idna(&idna_tab), hxs(&url), want, cn(code)),
            json!({"kind": "scan", "url": url, "impl": format!("{:?}", sc)}),
            has_auth && sc.is_ok(),
        );
        // ---------------- correspondence: Request::new
        idna_entries(&src, &mut idna_tab);
        let mut psl_tab = vec![];
        psl_entries(&[&url, &src], &mut psl_tab, &mut sm);
        let src_host = scan(&src).ok().and_then(|(ser, _, hs, he)| ser.get(hs..he).map(|s| s.to_string())).unwrap_or_default();
        let built = Request::new(&url, &src, &ty);
        cs.stat(if built.is_ok() { "request_ok" } else { "request_err" });
        if let Ok(b) = &built {
            if b.is_third_party { cs.stat("third_party") } else { cs.stat("first_party") }
            if b.request_type == RequestType::Websocket { cs.stat("websocket") }
            if !b.is_supported { cs.stat("unsupported_scheme") }
            // observation (not a C12 failure): ASCII host case is kept, so "EXAMPLE.com" and "example.com" are different hosts/domains
            if b.hostname.bytes().any(|c| c.is_ascii_uppercase()) { cs.stat("observation_upper_case_hostname_kept") }
        }
        let want = match &built { Ok(b) => format!("(Some {})", c_request_eqb(b)), Err(_) => "None".to_string() };
        cs.case(
            format!("check_new (Request_new {} {} {} (fun _ => []) {} {} {}) {}", c_idna(&idna_tab), c_psl(&psl_tab), c_hash(&src_host), hxs(&url), hxs(&src), hxs(&ty), want),
            json!({"kind": "new", "url": url, "source": src, "type": ty, "impl": built.as_ref().map(req_fields).map_err(|e| format!("{:?}", e))}),
            built.is_ok(),
        );
        // ---------------- correspondence: Request::preparsed
        let (pu, ph, ps, tp) = match (&built, r.below(3)) {
            (Ok(b), 0) | (Ok(b), 1) => (b.url.clone(), b.hostname.clone(), src_host.clone(), b.is_third_party),
            _ => (if r.chance(1, 2) { url.clone() } else { gen_soup(&mut r) }, gen_soup(&mut r), if r.chance(1, 2) { gen_soup(&mut r) } else { format!("{}.{}", gen_soup(&mut r), r.pick(gen::HOSTS)) }, r.chance(1, 2)),
        };
        let (pu2, ph2, ps2, ty2) = (pu.clone(), ph.clone(), ps.clone(), ty.clone());
        match catch(move || Request::preparsed(&pu2, &ph2, &ps2, &ty2, tp)) {
            Err(m) => sm.failure(None, &format!("Request::preparsed panicked: {}", m), json!({"kind": "preparsed", "url": pu, "hostname": ph, "source_hostname": ps, "type": ty, "third_party": tp, "source": ""})),
            Ok(p) => {
                sm.oracle_evaluations += 1;
                let e1 = std::panic::AssertUnwindSafe(&e);
                let p1 = p.clone();
                if let Err(m) = catch(move || verdict(&e1, &p1)) {
                    sm.failure(None, &format!("check_network_request on a preparsed request panicked: {}", m), json!({"kind": "preparsed", "url": pu, "hostname": ph, "source_hostname": ps, "type": ty, "third_party": tp, "source": ""}));
                }
                cs.case(
                    format!("check_pre (Request_preparsed {} (fun _ => []) {} {} {} {} {}) {}", c_hash(&ps), hxs(&pu), hxs(&ph), hxs(&ps), hxs(&ty), cbool(tp), c_request_eqb(&p)),
                    json!({"kind": "preparsed", "url": pu, "hostname": ph, "source_hostname": ps, "type": ty, "third_party": tp, "impl": req_fields(&p)}),
                    pu.contains(':') || ps.contains('.'),
                );
            }
        }
    }
    cs.stats.insert("host_rule_probes".into(), probes.host_rule);
    cs.stats.insert("host_rule_probes_matched".into(), probes.host_rule_matched);
    cs.stats.insert("other_name_rule_probes".into(), probes.decoy_rule);
    cs.stats.insert("other_name_rule_probes_matched".into(), probes.decoy_rule_matched);
    sm.oracle_evaluations += probes.host_rule + probes.decoy_rule;
    sm.extra.insert("observation".into(), json!("ASCII host case is not normalised: Request::new(\"http://EXAMPLE.com/x.js\", \"http://example.com/\", \"script\") has hostname \"EXAMPLE.com\", is_third_party = true, and ||example.com^ does not match it; not counted as a C12 failure (the property is stated on the strings the crate reports)"));
    cs.finish();
    sm.write(&a.out, &cs);
}
