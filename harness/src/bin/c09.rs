//! C09 — serialization is deterministic and a fixpoint under reload.
//!
//! Oracle (implementation side): bytes of engines built independently from the same rules, in
//! this process (debug on/off, optimize on/off; every std HashMap has its own RandomState) and in
//! child processes (this binary re-executed with `--child`, so each child has fresh process-wide
//! hash keys), on lists with hundreds of entries per container; and
//! `serialize(deserialize(b)) == b`.
//! Correspondence: the Gallina `serialize` (to_wire + ordered views + msgpack encoder,
//! Wire_Model.v) evaluated on the engine state taken from the dump hooks, with every hash
//! container printed in a shuffled order, must give exactly the bytes of `serialize_raw`; the
//! model's bucket invariant evaluated on the implementation's buckets; `fl_insert_all` (insert_dup)
//! against `NetworkFilterList::new(.., false)`.
#[path = "../wire_common.rs"]
mod wire_common;
use adblock::filters::network::NetworkFilter;
use adblock::verif_hooks::{dump_cosmetic, dump_engine_blocker, dump_filter, FilterList};
use adblock::Engine;
use implrun::*;
use serde_json::json;
use std::io::Write;
use wire_common::*;

const CONFIGS: &[(bool, bool)] = &[(false, true), (true, true), (false, false), (true, false)];

/// A list with hundreds of distinct entries per container: the small-vocabulary grammar (many
/// duplicates, all shapes), numbered synthetic rules for every container, and two slices of the
/// real EasyList shipped in /repo/data (network part and cosmetic part).
fn big_list(seed: u64, idx: usize) -> Vec<String> {
    let mut r = Rng::new(seed.wrapping_mul(7919).wrapping_add(idx as u64 * 104729 + 13));
    let mut v = rule_list(&mut r, 150, 100);
    let k = 200 + 100 * (idx % 3);
    for i in 0..k {
        let j = r.below(50);
        v.push(format!("||site{}.example{}.com^", i, j));
        v.push(format!("/banner{}/*ad{}", i, j));
        v.push(format!("##.gcls{}", i));
        v.push(format!("##.gcls{} > .x{}", i, j));
        v.push(format!("site{}.com##.sp{}", i, j));
        if i % 2 == 0 {
            v.push(format!("###gid{}", i));
            v.push(format!("###gid{} .y{}", i, j));
            v.push(format!("@@||ok{}.example.com^", i));
            v.push(format!("site{}.com#@#.sp{}", i, j));
            v.push(format!("##div[data-x=\"{}\"]", i));
        }
        if i % 8 == 0 {
            // a fusion group (one shared token, same options) in which one normalised pattern
            // occurs twice — spelled in two letter cases and once more verbatim — next to others
            v.push(format!("/FuseGrp{}/img", i));
            v.push(format!("/fusegrp{}/img", i));
            v.push(format!("/fusegrp{}/top", i));
            v.push(format!("/fusegrp{}/side", i));
            v.push(format!("/fusegrp{}/foot{}", i, j));
            v.push(format!("/fusegrp{}/top", i));
        }
        if i % 4 == 0 {
            v.push(format!("||tag{}.com^$tag={}", i, r.pick(gen::TAGS)));
            v.push(format!("||csp{}.com^$csp=img-src x{}", i, j));
            v.push(format!("||red{}.com^$redirect=noop.js", i));
            v.push(format!("||imp{}.com^$important", i));
            v.push(format!("@@||gh{}.com^$generichide", i));
            v.push(format!("site{}.com##+js(foo, {})", i, j));
            v.push(format!("site{}.com#@#+js(foo, {})", i, j));
            v.push(format!("site{}.com##.st{}:style(color: red)", i, j));
            v.push(format!("site{}.com##.pr{}:has-text(x{})", i, j, i));
            v.push(format!("site{}.com#@#.st{}:style(color: red)", i, j));
            v.push(format!("ads{}$domain=d{}.com|e{}.com|~f{}.com", i, i, j, j));
        }
    }
    if let Ok(txt) = std::fs::read_to_string("/repo/data/easylist.to/easylist/easylist.txt") {
        let lines: Vec<&str> = txt.lines().collect();
        let n = lines.len();
        if n > 40000 {
            let take = 1500;
            let a0 = r.below(n / 2 - take);
            let b0 = n / 2 + r.below(n / 2 - take);
            v.extend(lines[a0..a0 + take].iter().map(|s| s.to_string()));
            v.extend(lines[b0..b0 + take].iter().map(|s| s.to_string()));
        }
    }
    for i in (1..v.len()).rev() {
        let j = r.below(i + 1);
        v.swap(i, j);
    }
    v
}

fn child_main(v: &[String]) {
    // --child SEED IDX CONFIG TAGS
    let seed: u64 = v[0].parse().unwrap();
    let idx: usize = v[1].parse().unwrap();
    let cfg: usize = v[2].parse().unwrap();
    let tags: Vec<&str> = v[3].split(',').filter(|s| !s.is_empty()).collect();
    let (debug, optimize) = CONFIGS[cfg];
    let mut e = build(&big_list(seed, idx), debug, optimize, 0);
    if !tags.is_empty() {
        e.use_tags(&tags);
    }
    let b = e.serialize_raw().unwrap();
    std::io::stdout().write_all(&b).unwrap();
}

fn run_child(seed: u64, idx: usize, cfg: usize, tags: &str) -> Result<Vec<u8>, String> {
    let exe = std::env::current_exe().map_err(|e| e.to_string())?;
    let out = std::process::Command::new(exe)
        .args(["--child", &seed.to_string(), &idx.to_string(), &cfg.to_string(), tags])
        .output()
        .map_err(|e| e.to_string())?;
    if !out.status.success() {
        return Err(format!("child failed: {}", String::from_utf8_lossy(&out.stderr)));
    }
    Ok(out.stdout)
}

fn first_diff(a: &[u8], b: &[u8]) -> String {
    let i = a.iter().zip(b.iter()).position(|(x, y)| x != y).unwrap_or(a.len().min(b.len()));
    format!("lengths {} / {}, first difference at byte {}", a.len(), b.len(), i)
}

/// In-process determinism + fixpoint for one list and configuration. Returns the bytes.
fn check_list(sm: &mut Summary, rules: &[String], debug: bool, optimize: bool, tags: &[&str], stats: &mut std::collections::BTreeMap<String, u64>) -> Vec<u8> {
    let replay = json!({"kind": "determinism", "rules": if rules.len() <= 60 { json!(rules) } else { json!(null) }, "n_rules": rules.len(), "debug": debug, "optimize": optimize, "tags": tags});
    let mk = || {
        let mut e = build(rules, debug, optimize, 0);
        if !tags.is_empty() {
            e.use_tags(tags);
        }
        e
    };
    let e1 = mk();
    let e2 = mk();
    let b1 = e1.serialize_raw().unwrap();
    let b2 = e2.serialize_raw().unwrap();
    sm.oracle_evaluations += 1;
    if b1 != b2 {
        sm.failure(None, &format!("two engines built from the same rules serialize differently ({})", first_diff(&b1, &b2)), replay.clone());
    }
    // serializing twice
    sm.oracle_evaluations += 1;
    if e1.serialize_raw().unwrap() != b1 {
        sm.failure(None, "serializing the same engine twice gives different bytes", replay.clone());
    }
    // fixpoint: load into a fresh engine that has the same tags enabled
    for hint in [true, false] {
        let mut l = Engine::new(hint);
        if !tags.is_empty() {
            l.use_tags(tags);
        }
        sm.oracle_evaluations += 1;
        match l.deserialize(&b1) {
            Err(x) => sm.failure(None, &format!("own bytes do not load: {:?}", x), replay.clone()),
            Ok(()) => {
                let b3 = l.serialize_raw().unwrap();
                if b3 != b1 {
                    sm.failure(None, &format!("serialize(deserialize(b)) != b ({})", first_diff(&b1, &b3)), replay.clone());
                }
            }
        }
    }
    // loader with other tags: the documented condition of the fixpoint (not a failure)
    if !tags.is_empty() {
        let mut l = Engine::new(true);
        if l.deserialize(&b1).is_ok() {
            let same = l.serialize_raw().unwrap() == b1;
            *stats.entry(if same { "other_tags_same_bytes".into() } else { "other_tags_different_bytes".into() }).or_insert(0) += 1;
        }
    }
    // hypothesis of the optimizer theorem on the implementation's state: ids distinct in a bucket
    let d = dump_engine_blocker(&e1);
    for (name, l) in &d.lists {
        for (k, b) in l {
            let mut ids: Vec<u64> = b.iter().map(|f| f.id).collect();
            let n = ids.len();
            ids.sort();
            ids.dedup();
            sm.oracle_evaluations += 1;
            if ids.len() != n {
                sm.failure(None, &format!("bucket {} of list {} holds two rules with the same id", k, name), replay.clone());
            }
        }
    }
    b1
}

fn main() {
    let raw: Vec<String> = std::env::args().collect();
    if let Some(p) = raw.iter().position(|s| s == "--child") {
        child_main(&raw[p + 1..]);
        return;
    }
    let a = args();
    let mut sm = Summary::default();
    let mut stats = std::collections::BTreeMap::new();
    if let Some(p) = &a.replay {
        let v: serde_json::Value = serde_json::from_str(&std::fs::read_to_string(p).unwrap()).unwrap();
        let rp = &v["replay"];
        let rules: Vec<String> = rp["rules"].as_array().map(|x| x.iter().map(|s| s.as_str().unwrap().to_string()).collect()).unwrap_or_default();
        let tags: Vec<String> = rp["tags"].as_array().map(|x| x.iter().map(|s| s.as_str().unwrap().to_string()).collect()).unwrap_or_default();
        let tr: Vec<&str> = tags.iter().map(|s| s.as_str()).collect();
        let b = check_list(&mut sm, &rules, rp["debug"].as_bool().unwrap_or(false), rp["optimize"].as_bool().unwrap_or(true), &tr, &mut stats);
        println!("rules={} bytes={} failures={}", rules.len(), b.len(), sm.oracle_failures.len());
        for f in &sm.oracle_failures {
            println!("{}", f["what"]);
        }
        if !sm.oracle_failures.is_empty() {
            println!("VIOLATION property=C09 replay={}", p.display());
            std::process::exit(1);
        }
        return;
    }
    let mut r = Rng::new(a.seed);
    let mut cs = Cases::new(&a.out, "Generated Wire_Model C09_Model");
    cs.shard = 40;
    sm.rule = "correspondence: small random engines (6-30 rules: every network shape of gen::rule plus tags, redirects, csp, generichide, regex; cosmetic generic/specific/procedural/scriptlet/exception rules), debug and optimize on/off, tags on/off, fresh and reloaded; the model state is printed from the dump hooks with every hash container shuffled; non-trivial = the engine has at least 3 non-empty containers. Oracle: big lists (about 5000-7000 rules: grammar rules, numbered synthetic rules for every container, fusion groups in which one normalised pattern occurs twice (two letter cases, verbatim repeats), two 1500-line slices of the real EasyList) in process and in child processes".into();

    // ---- oracle on big lists: in process, child processes, fixpoint
    let n_big = 3 * a.scale.min(4);
    let mut children = 0u64;
    for idx in 0..n_big {
        let rules = big_list(a.seed, idx);
        for (ci, &(debug, optimize)) in CONFIGS.iter().enumerate() {
            let tags: &[&str] = if ci == 1 { &["t1", "t3"] } else { &[] };
            let b = check_list(&mut sm, &rules, debug, optimize, tags, &mut stats);
            stats.insert(format!("big_list_{}_cfg{}_bytes", idx, ci), b.len() as u64);
            // two children per (list, config) in the first list, one otherwise
            let n_children = if idx == 0 || a.scale > 1 { 2 } else { 1 };
            for _ in 0..n_children {
                sm.oracle_evaluations += 1;
                children += 1;
                match run_child(a.seed, idx, ci, &tags.join(",")) {
                    Err(e) => sm.failure(None, &format!("child process: {}", e), json!({"kind": "child", "seed": a.seed, "idx": idx, "cfg": ci})),
                    Ok(cb) => {
                        if cb != b {
                            sm.failure(None, &format!("a child process serializes the same list differently ({})", first_diff(&b, &cb)),
                                json!({"kind": "child", "seed": a.seed, "idx": idx, "cfg": ci, "n_rules": rules.len()}));
                        }
                    }
                }
            }
        }
        // container sizes, to show that hash order had room to differ
        let e = build(&rules, false, true, 0);
        let d = dump_engine_blocker(&e);
        for (name, l) in &d.lists {
            stats.insert(format!("big_list_{}_buckets_{}", idx, name), l.len() as u64);
        }
        let c = dump_cosmetic(&e);
        stats.insert(format!("big_list_{}_simple_class", idx), c.simple_class_rules.len() as u64);
        stats.insert(format!("big_list_{}_hide_keys", idx), c.hide.len() as u64);
        stats.insert(format!("big_list_{}_misc", idx), c.misc_generic_selectors.len() as u64);
    }
    sm.extra.insert("child_processes".into(), json!(children));

    // ---- correspondence: model serialize == serialize_raw, on small engines
    let n_small = 200 * a.scale;
    for i in 0..n_small {
        let n_net = r.range(3, 18);
        let n_cos = r.range(2, 12);
        let rules = rule_list(&mut r, n_net, n_cos);
        let (debug, optimize) = CONFIGS[i % 4];
        let tags: &[&str] = TAGSETS[(i / 4) % TAGSETS.len()];
        // every fifth engine is assembled from several lists with different permission masks
        MULTI_LIST.with(|m| m.set(i % 5 == 4));
        if i % 5 == 4 { *stats.entry("engines_from_several_lists_with_different_permissions".into()).or_insert(0) += 1; }
        let b = check_list(&mut sm, &rules, debug, optimize, tags, &mut stats);
        let mut e = build(&rules, debug, optimize, 0);
        if !tags.is_empty() {
            e.use_tags(tags);
        }
        // every third case: the state of the *reloaded* engine (from_wire side) must serialize to the same bytes
        let reloaded = i % 3 == 2;
        if reloaded {
            let mut l = Engine::new(!optimize);
            l.use_tags(tags);
            if l.deserialize(&b).is_err() {
                continue;
            }
            e = l;
        }
        let cd = dump_cosmetic(&e);
        let nonempty = {
            let d = dump_engine_blocker(&e);
            d.lists.iter().filter(|(n, l)| *n != "removeparam" && !l.is_empty()).count()
                + [cd.simple_class_rules.len(), cd.simple_id_rules.len(), cd.complex_class_rules.len(), cd.hide.len(), cd.unhide.len(), cd.inject_script.len(), cd.procedural_action.len(), cd.misc_generic_selectors.len()]
                    .iter().filter(|&&n| n > 0).count()
        };
        let expr = format!("bytes_eqb (serialize {} {}) {}", coq_css_table(&cd), coq_engine(&mut r, &e), hx(&b));
        cs.stat(if reloaded { "serialize_reloaded_state" } else { "serialize_built_state" });
        cs.case(expr, json!({"rules": rules, "debug": debug, "optimize": optimize, "tags": tags, "reloaded": reloaded, "bytes": b.len()}), nonempty >= 3);
        // the model's bucket invariant on the implementation's buckets (unoptimized lists)
        if !optimize && i % 2 == 0 {
            let d = dump_engine_blocker(&e);
            for (name, l) in &d.lists {
                if !l.is_empty() {
                    cs.stat("buckets_sorted_on_impl_state");
                    cs.case(format!("buckets_sorted_b {}", coq_bucket_map(&mut r, l)), json!({"list": name, "buckets": l.len(), "rules": rules}), l.iter().any(|(_, b)| b.len() > 1));
                }
            }
        }
    }
    MULTI_LIST.with(|m| m.set(false));

    // ---- correspondence: insert_dup / fl_insert_all vs NetworkFilterList::new(filters, false)
    for _ in 0..(160 * a.scale) {
        let n = r.range(4, 24);
        let mut lines: Vec<String> = (0..n).map(|_| if r.chance(1, 3) { format!("{}$domain=a.com|b.com|x.net", gen::pattern(&mut r)) } else { gen::rule(&mut r, false) }).collect();
        if r.chance(1, 2) {
            let d = lines[r.below(lines.len())].clone();
            lines.push(d); // an exact duplicate: same id, inserted twice
        }
        let filters: Vec<NetworkFilter> = lines.iter().filter_map(|l| NetworkFilter::parse(l, true, Default::default()).ok()).collect();
        if filters.is_empty() {
            continue;
        }
        let dumps: Vec<_> = filters.iter().map(dump_filter).collect();
        let fl = FilterList::new(filters, false);
        let d = fl.dump();
        // placements in rule order: the keys under which the implementation stored each rule
        let mut placements = vec![];
        for f in &dumps {
            for (k, b) in &d {
                if b.iter().any(|x| x.id == f.id) {
                    placements.push(format!("({}, {})", cn(k), coq_rule(f)));
                }
            }
        }
        let want = clist(&d, |(k, b)| format!("({}, {})", cn(k), clist(b, |f| cn(f.id))));
        let expr = format!(
            "list_eqb (pair_eqb N.eqb (list_eqb N.eqb)) (map (fun kb => (fst kb, map r_id (snd kb))) (sort_nmap (fl_insert_all [{}]))) {}",
            placements.join("; "), want
        );
        cs.stat("fl_insert_all");
        sm.oracle_evaluations += 1;
        let multi = d.iter().any(|(_, b)| b.len() > 2);
        cs.case(expr, json!({"rules": lines, "buckets": d.len()}), multi);
    }
    // ---- oracle: optimizer::optimize iterates a freshly seeded hash map of fusion groups on every
    // call; two calls on the same rules must give the same sequence, sorted by id
    for _ in 0..(150 * a.scale) {
        let n = r.range(3, 30);
        let mut seen = std::collections::HashSet::new();
        let mut filters: Vec<NetworkFilter> = vec![];
        for _ in 0..n {
            let line = match r.below(4) {
                0 => gen::rule(&mut r, false),
                1 => format!("{}${}", gen::segs(&mut r, 1, 3), r.pick(&["script", "image", "script,third-party", "xhr"])),
                2 => format!("@@{}", gen::segs(&mut r, 1, 3)),
                _ => gen::segs(&mut r, 1, 4),
            };
            if let Ok(f) = NetworkFilter::parse(&line, r.chance(1, 2), Default::default()) {
                if seen.insert(f.id) {
                    filters.push(f);
                }
            }
        }
        filters.sort_by_key(|f| f.id);
        let strip = |v: Vec<NetworkFilter>| v.iter().map(|f| { let mut d = dump_filter(f); d.addr = 0; d }).collect::<Vec<_>>();
        let o1 = strip(adblock::verif_hooks::optimize(filters.clone()));
        let mut same = true;
        for _ in 0..3 {
            if strip(adblock::verif_hooks::optimize(filters.clone())) != o1 {
                same = false;
            }
        }
        sm.oracle_evaluations += 1;
        let sorted = o1.windows(2).all(|w| w[0].id < w[1].id);
        *stats.entry(if o1.len() < filters.len() { "optimize_fused_something".to_string() } else { "optimize_nothing_to_fuse".to_string() }).or_insert(0) += 1;
        if !same || !sorted {
            sm.failure(None, &format!("optimizer::optimize is not a function of its input / not sorted by id (same={}, sorted={})", same, sorted),
                json!({"kind": "optimize", "rules": filters.iter().map(|f| dump_filter(f).raw_line).collect::<Vec<_>>()}));
        }
    }
    for (k, v) in stats {
        cs.stats.insert(k, v);
    }
    cs.finish();
    sm.write(&a.out, &cs);
}
