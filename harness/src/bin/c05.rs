//! C05 — rule optimisation never changes any verdict.
//!
//! Correspondence (C05_Model.v): optimizer::optimize on bucket-like rule lists and
//! NetworkFilterList::optimize on dumped lists, compared as (id, mask, patterns) per bucket.
//! Oracle: engine built with optimisation vs without, and Blocker::optimize on a live blocker,
//! all result fields, several tag sets.
use adblock::blocker::{Blocker, BlockerOptions};
use adblock::filters::network::NetworkFilter;
use adblock::request::Request;
use adblock::resources::{MimeType, ResourceStorage};
use adblock::verif_hooks::{dump_filter, FilterDump, FilterList};
use implrun::net::*;
use implrun::*;
use serde_json::{json, Value};
use std::collections::BTreeSet;

fn view(d: &FilterDump) -> String {
    format!("({}, {}, {})", cn(d.id), cn(d.mask), cstrs(&d.filter))
}

/// rules built to share masks (so that they are fused) and to differ in exactly one aspect
/// Group-size boundaries: n token-less rules (all in bucket 0) with one option set, so that one
/// fusion group has exactly n members (31..34, 63..66, 97).
fn big_group(r: &mut Rng) -> Vec<String> {
    let n = r.pick(&[31usize, 32, 33, 34, 63, 64, 65, 66, 97]);
    let o = r.pick(&["", "$image", "$script,third-party"]);
    let exc = if r.chance(1, 6) { "@@" } else { "" };
    let letters = ["a", "b", "c", "d", "e", "f", "g", "h", "i", "j"];
    let mut v = vec![];
    'outer: for x in letters {
        for y in letters {
            if v.len() >= n { break 'outer; }
            v.push(format!("{}/{}/{}{}{}", exc, x, y, r.pick(&["", "/", "."]), o));
        }
    }
    v
}
/// Left-anchored plain rules of very different lengths with one option set (one fusion group whose
/// patterns are tried in id order); the test URLs are the patterns themselves, so some patterns
/// are longer than the URL at hand.
fn left_anchored_family(r: &mut Rng) -> Vec<String> {
    let n = r.range(3, 7);
    let o = r.pick(&["", "$script", "$image,third-party"]);
    let host = r.pick(gen::HOSTS);
    let mut v = vec![];
    let mut urls = vec![];
    for i in 0..n {
        let path = match i % 4 { 0 => String::new(), 1 => format!("/{}", r.pick(gen::VOCAB)), 2 => format!("/{}/{}/{}.js", r.pick(gen::VOCAB), r.pick(gen::VOCAB), r.pick(gen::VOCAB)), _ => format!("/{}?{}=1&very-long-query-string-{}", r.pick(gen::VOCAB), r.pick(gen::PARAMS), i) };
        v.push(format!("|https://{}{}{}", host, path, o));
    }
    // always: members much longer than the URLs asked about next to short members that match them
    // (whichever comes first by id, the fused rule must try every pattern)
    for i in 0..r.range(2, 4) {
        v.push(format!("|https://{}/{}/a-very-long-path-segment-number-{}/and-another-one/file{}.js{}", host, r.pick(gen::VOCAB), i, i, o));
        let w = r.pick(gen::VOCAB);
        v.push(format!("|https://{}/{}{}{}", host, w, i, o));
        urls.push(format!("https://{}/{}{}", host, w, i));
        urls.push(format!("https://{}/{}{}/x", host, w, i));
    }
    FAMILY.with(|f| *f.borrow_mut() = (urls, None));
    v
}
/// Plain rules anchored on BOTH sides (`|https://host/a|`: the URL must equal the pattern), several
/// of the same length and of different lengths under one option set; the test URLs are the patterns.
fn exact_match_family(r: &mut Rng) -> Vec<String> {
    let n = r.range(2, 6);
    let o = r.pick(&["", "$script", "$image,third-party"]);
    let host = r.pick(gen::HOSTS);
    let stem = r.pick(gen::VOCAB);
    let mut v = vec![];
    for i in 0..n {
        let tail = match r.below(3) { 0 => format!("{}", (b'a' + (i as u8)) as char), 1 => format!("{}{}", (b'a' + (i as u8)) as char, r.pick(&["", "1", "/x"])), _ => format!("{}.js", (b'a' + (i as u8)) as char) };
        v.push(format!("|https://{}/{}/{}|{}", host, stem, tail, o));
    }
    v
}
/// Plain rules of VERY different lengths under one option set in one bucket (token-less patterns, or
/// patterns sharing their only token), unanchored or right-anchored: after fusion the patterns are
/// tried one after the other against one URL, which may be shorter than some of them.  The test URLs
/// are short: host + one of the SHORT patterns.
fn length_family(r: &mut Rng) -> Vec<String> {
    let o = r.pick(&["", "$script", "$image,third-party"]);
    let right = r.chance(1, 2);
    let tail = if right { "|" } else { "" };
    let mut v = vec![];
    let n = r.range(3, 7);
    for i in 0..n {
        let pat = if right {
            // only token: the extension
            let ext = "gif";
            match i % 3 { 0 => format!("/{}.{}", r.pick(&["p", "q", "x"]), ext), 1 => format!("/{}/{}.{}", r.pick(&["1", "2"]), r.pick(&["x", "y"]), ext), _ => format!("/{}/{}/{}-{}.{}", r.pick(&["a", "b"]), "static-assets-and-more", "tracking-pixel-image-file", i, ext) }
        } else {
            // one token ("adv") in every pattern, so that all of them share a bucket; the long ones are
            // padded with separator characters only
            // no index token at all (the only word runs to the unanchored end), so that all of them share
            // the fallback bucket: three-letter words and words of 45-60 letters
            match i % 3 {
                0 | 1 => format!("/{}", r.pick(&["adv", "ads", "pix", "trk", "bnr"])),
                _ => format!("/{}", (0..r.range(45, 60)).map(|_| (b'a' + r.below(26) as u8) as char).collect::<String>()),
            }
        };
        v.push(format!("{}{}{}", pat, tail, o));
    }
    v
}
thread_local! {
    /// URLs a family asks about (next to the random ones) and the cut it wants for the
    /// optimize-then-add blocker
    static FAMILY: std::cell::RefCell<(Vec<String>, Option<usize>)> = std::cell::RefCell::new((vec![], None));
}
/// Rules alike in everything but the letter case of a place where case is kept and matters: an
/// escape class of a /regex/ (\d / \D ...), or any letter of a $match-case rule.
fn case_significant_family(r: &mut Rng) -> Vec<String> {
    let w = r.pick(gen::VOCAB);
    let h = r.pick(gen::HOSTS);
    let o = r.pick(&["", "$script", "$image,third-party"]);
    let (mut v, mut urls): (Vec<String>, Vec<String>) = (vec![], vec![]);
    match r.below(5) {
        0 => { v.push(format!("/{}\\d/{}", w, o)); v.push(format!("/{}\\D/{}", w, o)); urls.push(format!("https://{}/{}5", h, w)); urls.push(format!("https://{}/{}x", h, w)); }
        1 => { v.push(format!("/{}\\w+\\.js/{}", w, o)); v.push(format!("/{}\\W+\\.js/{}", w, o)); urls.push(format!("https://{}/{}ab.js", h, w)); urls.push(format!("https://{}/{}--.js", h, w)); }
        2 => { v.push(format!("/{}\\s/{}", w, o)); v.push(format!("/{}\\S/{}", w, o)); urls.push(format!("https://{}/{}/x", h, w)); urls.push(format!("https://{}/{}%20x", h, w)); }
        3 => { v.push(format!("/\\b{}[0-9]/{}", w, o)); v.push(format!("/\\B{}[0-9]/{}", w, o)); urls.push(format!("https://{}/{}1", h, w)); urls.push(format!("https://{}/x{}1", h, w)); }
        _ => {
            let cap = format!("{}{}", w[..1].to_uppercase(), &w[1..]);
            let mc = if o.is_empty() { "$match-case".to_string() } else { format!("{},match-case", o) };
            v.push(format!("/{}-[0-9]/{}", cap, mc)); v.push(format!("/{}-[0-9]/{}", w, mc));
            urls.push(format!("https://{}/{}-1", h, cap)); urls.push(format!("https://{}/{}-1", h, w));
        }
    }
    if r.chance(1, 2) { v.reverse(); }
    if r.chance(1, 2) { v.push(gen::rule(r, true)); }
    FAMILY.with(|f| *f.borrow_mut() = (urls, None));
    v
}
/// Two token-less rules that fuse, then (past the cut: added after the first optimize()) rules whose
/// text is the '|'-join of the two patterns; a second optimize() follows the additions.
fn join_text_family(r: &mut Rng) -> Vec<String> {
    let p1 = format!("{}{}{}", r.pick(&["-", "_", "/", "."]), r.pick(&["a", "b", "x", "q"]), r.pick(&["-", ".", "_"]));
    let mut p2 = p1.clone();
    while p2 == p1 { p2 = format!("{}{}{}", r.pick(&["-", "_", "/", "."]), r.pick(&["a", "b", "x", "q"]), r.pick(&["-", ".", "_"])); }
    let o = r.pick(&["", "$script", "$image"]);
    let h = r.pick(gen::HOSTS);
    let v = vec![format!("{}{}", p1, o), format!("{}{}", p2, o), format!("{}|{}{}", p1, p2, o), format!("{}|{}{}", p2, p1, o)];
    let urls = vec![format!("https://{}/z{}z", h, p1), format!("https://{}/z{}z", h, p2), format!("https://{}/z{}|{}z", h, p1, p2)];
    FAMILY.with(|f| *f.borrow_mut() = (urls, Some(2)));
    v
}

fn fusable(r: &mut Rng) -> Vec<String> {
    FAMILY.with(|f| *f.borrow_mut() = (vec![], None));
    if r.chance(1, 14) {
        return case_significant_family(r);
    }
    if r.chance(1, 20) {
        return join_text_family(r);
    }
    if r.chance(1, 25) {
        return big_group(r);
    }
    if r.chance(1, 10) {
        return length_family(r);
    }
    if r.chance(1, 12) {
        return exact_match_family(r);
    }
    if r.chance(1, 12) {
        return left_anchored_family(r);
    }
    let n = r.range(2, 7);
    let opts: &[&str] = &["", "$script", "$image,third-party", "$tag=t1", "$tag=t2", "$important", "$match-case"];
    let o1 = r.pick(opts);
    let o2 = r.pick(opts);
    let mut v = vec![];
    // sometimes every rule of the list is of one modifier category (csp / redirect), so that
    // same-bucket neighbours of the categories that must NOT be fused occur
    let modcat = match r.below(8) { 0 => Some("csp=script-src 'none'"), 1 => Some("csp=img-src *"), 2 => Some("redirect=noop.js"), 3 => Some("removeparam"), _ => None };
    let shared_pat = format!("/{}/{}^", r.pick(gen::VOCAB), r.pick(gen::VOCAB));
    for _ in 0..n {
        let o = if r.chance(2, 3) { o1 } else { o2 };
        let exc = if r.chance(1, 5) { "@@" } else { "" };
        let pat = match r.below(if modcat.is_some() { 14 } else { 11 }) {
            // modifier lists: several rules on one pattern (same bucket, same mask, different argument)
            11 | 12 | 13 => shared_pat.clone(),
            // pattern-less rule: matches every URL, must survive fusion with patterned neighbours
            8 => String::new(),
            // token-less patterns share bucket 0 with the pattern-less rules
            9 => format!("/{}", r.pick(&["a", "b", "x"])),
            10 => format!("{}{}", r.pick(&["-", "_", "/", "."]), r.pick(&["a", "b", "x", "ad"])),
            0 => format!("{}*{}", r.pick(gen::VOCAB), r.pick(gen::VOCAB)),
            1 => format!("{}^{}", r.pick(gen::VOCAB), r.pick(gen::VOCAB)),
            2 => format!("|https://{}", r.pick(gen::HOSTS)),
            3 => format!("/{}|", gen::segs(r, 1, 2)),
            4 => format!("/{}.*{}/", r.pick(gen::VOCAB), r.pick(gen::VOCAB)),
            5 => format!("/{}(/", r.pick(gen::VOCAB)), // a regex that does not compile
            _ => format!("/{}/{}", r.pick(gen::VOCAB), gen::segs(r, 1, 2)),
        };
        let o = if o == "$match-case" && !(pat.starts_with('/') && pat.ends_with('/')) { "" } else { o };
        let o = if pat.is_empty() && o.is_empty() { "$image" } else { o };
        let rp;
        let modcat = if modcat == Some("removeparam") { rp = format!("removeparam={}", r.pick(gen::PARAMS)); Some(rp.as_str()) }
            else if modcat == Some("redirect=noop.js") { rp = format!("redirect={}", r.pick(&["noop.js", "noop.txt", "noop.js:5", "noop.txt:5"])); Some(rp.as_str()) }
            else { modcat };
        let o = match modcat {
            Some(m) if r.chance(3, 4) => if o.is_empty() { format!("${}", m) } else { format!("{},{}", o, m) },
            _ => o.to_string(),
        };
        v.push(format!("{}{}{}", exc, pat, o));
    }
    // near twins: the pattern of a rule of the list again, under the other option set (after
    // optimize() the first one may sit inside a fused rule; the twin is a different rule)
    if r.chance(1, 2) && !v.is_empty() {
        let k = r.below(v.len());
        let base = v[k].clone();
        let pat = base.trim_start_matches("@@").split('$').next().unwrap_or("").to_string();
        if !pat.is_empty() {
            let other = if base.contains("$script") { "$image" } else { "$script" };
            v.push(format!("{}{}", pat, other));
        }
    }
    // tag-only twins: a rule of the list again, identical except for its tag (or with a tag where it
    // had none); only one of the two tags may be enabled at query time
    if r.chance(1, 3) && !v.is_empty() {
        let base = v[r.below(v.len())].clone();
        if !base.contains("match-case") {
            let twin = if base.contains("tag=t1") { base.replace("tag=t1", "tag=t2") } else if base.contains("tag=t2") { base.replace("tag=t2", "tag=t1") }
                else if base.contains('$') { format!("{},tag={}", base, r.pick(&["t1", "t2"])) } else { format!("{}$tag={}", base, r.pick(&["t1", "t2"])) };
            if r.chance(1, 2) { v.push(twin) } else { v.insert(0, twin) }
        }
    }
    // rules dispatched per source domain (no pattern token, several domains) are held by several
    // buckets; together with single-bucket rules keyed by one of those domains they exercise the
    // shared / owned split of NetworkFilterList::optimize
    if r.chance(1, 3) {
        let d1 = r.pick(gen::DOMAINS);
        let d2 = r.pick(gen::DOMAINS);
        let t = r.pick(&["script", "image", "font"]);
        let md = |r: &mut Rng| -> String {
            match modcat {
                Some("redirect=noop.js") => format!(",redirect={}", r.pick(&["noop.js", "noop.txt"])),
                Some(m) if m.starts_with("csp") => format!(",{}", m),
                _ => String::new(),
            }
        };
        let t = if modcat.map(|m| m.starts_with("csp")).unwrap_or(false) { "third-party" } else { t };
        let m1 = md(r);
        v.push(format!("${}{},domain={}|{}", t, m1, d1, d2));
        let k = r.range(1, 3);
        for _ in 0..k {
            let t2 = if modcat.map(|m| m.starts_with("csp")).unwrap_or(false) { "third-party" } else { r.pick(&["script", "image", "font", "xhr"]) };
            let pat = if r.chance(1, 2) { String::new() } else { format!("/{}", r.pick(&["a", "b"])) };
            let m2 = md(r);
            v.push(format!("{}${}{},domain={}", pat, t2, m2, if r.chance(2, 3) { d1 } else { d2 }));
        }
    }
    if r.chance(1, 3) {
        v.push(gen::rule(r, true));
    }
    v
}

fn resources() -> ResourceStorage {
    ResourceStorage::from_resources([
        implrun::res::resource("noop.js", MimeType::ApplicationJavascript, "(function(){})()"),
        implrun::res::resource("noop.txt", MimeType::TextPlain, ""),
    ])
}

#[derive(PartialEq, Debug)]
struct Obs {
    v: V,
    redirect: Option<String>,
    rewritten: Option<String>,
    csp: Option<BTreeSet<String>>,
    gh: bool,
}
fn observe(b: &Blocker, rs: &ResourceStorage, req: &Request) -> Obs {
    let r = b.check(req, rs);
    Obs {
        v: V { matched: r.matched, important: r.important, exception: r.exception.is_some(), filter: r.filter.is_some() },
        redirect: r.redirect,
        rewritten: r.rewritten_url,
        csp: b.get_csp_directives(req).map(|s| s.split(',').map(|x| x.to_string()).collect()),
        gh: b.check_generic_hide(req),
    }
}
fn parse_all(lines: &[String]) -> Vec<NetworkFilter> {
    lines.iter().filter_map(|l| parse_net(l)).collect()
}
/// Blocker::new on a prefix, optimize(), then the rest through add_filter (lists without $badfilter,
/// which add_filter refuses): a live engine that was optimised and then extended.
fn blocker_optimize_then_add(lines: &[String], tags: &[&str], cut: usize) -> Option<Blocker> {
    if lines.iter().any(|l| l.contains("badfilter")) {
        return None;
    }
    let mut b = Blocker::new(parse_all(&lines[..cut]), &BlockerOptions { enable_optimizations: false });
    b.optimize();
    let mut seen: std::collections::HashSet<u64> = parse_all(&lines[..cut]).iter().map(|f| f.id).collect();
    for f in parse_all(&lines[cut..]) {
        let fresh = seen.insert(f.id);
        let res = b.add_filter(f);
        if fresh && res.is_err() {
            return None.or_else(|| { REJECTED.with(|c| c.set(true)); None });
        }
    }
    // half of the time a second optimisation pass follows the additions
    if cut % 2 == 0 {
        b.optimize();
    }
    b.use_tags(tags);
    Some(b)
}
thread_local! { static REJECTED: std::cell::Cell<bool> = std::cell::Cell::new(false); }
fn blockers(lines: &[String], tags: &[&str]) -> (Blocker, Blocker, Blocker) {
    let mut off = Blocker::new(parse_all(lines), &BlockerOptions { enable_optimizations: false });
    let mut on = Blocker::new(parse_all(lines), &BlockerOptions { enable_optimizations: true });
    let mut live = Blocker::new(parse_all(lines), &BlockerOptions { enable_optimizations: false });
    off.use_tags(tags);
    on.use_tags(tags);
    live.use_tags(tags);
    live.optimize();
    (off, on, live)
}

/// A group whose RegexSet cannot be built (one member does not compile) silences its other members.
fn has_bad_regex(lines: &[String]) -> bool {
    lines.iter().any(|l| {
        let p = l.trim_start_matches("@@");
        let p = p.split('$').next().unwrap_or("");
        p.len() > 2 && p.starts_with('/') && p.ends_with('/') && regex::bytes::Regex::new(&p[1..p.len() - 1]).is_err()
    })
}

fn main() {
    let a = args();
    if let Some(p) = &a.replay {
        let v: Value = serde_json::from_str(&std::fs::read_to_string(p).unwrap()).unwrap();
        let rp = &v["replay"];
        let lines: Vec<String> = rp["rules"].as_array().unwrap().iter().map(|x| x.as_str().unwrap().to_string()).collect();
        let tags: Vec<String> = rp["tags"].as_array().unwrap().iter().map(|x| x.as_str().unwrap().to_string()).collect();
        let tr: Vec<&str> = tags.iter().map(|s| &**s).collect();
        let req = Request::new(rp["url"].as_str().unwrap(), rp["source"].as_str().unwrap(), rp["type"].as_str().unwrap()).unwrap();
        let rs = resources();
        let (off, on, live) = blockers(&lines, &tr);
        let (o0, o1, o2) = (observe(&off, &rs, &req), observe(&on, &rs, &req), observe(&live, &rs, &req));
        println!("unoptimized: {:?}\noptimized:   {:?}\noptimize():  {:?}", o0, o1, o2);
        let mut ext_bad = false;
        if rp["engine"].as_bool().unwrap_or(false) {
            let mk = |optimize: bool| -> adblock::Engine {
                let mut e = adblock::Engine::from_rules_parametrised(lines.iter(), Default::default(), false, optimize);
                e.use_tags(&tr);
                e
            };
            let (a, b) = (mk(false).check_network_request(&req), mk(true).check_network_request(&req));
            println!("Engine without optimisation: matched={} filter={:?}; with: matched={} filter={:?}", a.matched, a.filter, b.matched, b.filter);
            ext_bad = (a.matched, a.important, a.exception.is_some(), a.filter.is_some(), a.rewritten_url.clone()) != (b.matched, b.important, b.exception.is_some(), b.filter.is_some(), b.rewritten_url.clone());
        }
        if rp["warm"].as_bool().unwrap_or(false) {
            let mut warmed = Blocker::new(parse_all(&lines), &BlockerOptions { enable_optimizations: false });
            warmed.use_tags(&tr);
            // warm the cache on every rule's own URL and on the request, then optimize
            let _ = observe(&warmed, &rs, &req);
            for l in &lines { let mut r2 = Rng::new(1); let u = gen::url_for(&mut r2, l); if let Ok(q) = Request::new(&u, rp["source"].as_str().unwrap(), rp["type"].as_str().unwrap()) { let _ = observe(&warmed, &rs, &q); } }
            warmed.optimize();
            let ow = observe(&warmed, &rs, &req);
            println!("queried, optimize(), queried: {:?}", ow);
            ext_bad = ow != o0;
        }
        if let Some(cut) = rp["cut"].as_u64() {
            REJECTED.with(|c| c.set(false));
            let ext = blocker_optimize_then_add(&lines, &tr, (cut as usize).min(lines.len()));
            if REJECTED.with(|c| c.get()) {
                println!("after optimize() on the first {} rules, add_filter refused a rule that was never added", cut);
                ext_bad = true;
            }
            if let Some(x) = ext {
                let o3 = observe(&x, &rs, &req);
                println!("optimize() on the first {} rules + add_filter: {:?}", cut, o3);
                ext_bad = ext_bad || o3 != o0;
            }
        }
        if o0 != o1 || o0 != o2 || ext_bad {
            println!("VIOLATION property=C05 replay={}", p.display());
            std::process::exit(1);
        }
        return;
    }
    let mut r = Rng::new(a.seed);
    let mut cs = Cases::new(&a.out, "Hashing Net_Model C05_Model");
    cs.shard = 120;
    let mut sm = Summary::default();
    sm.rule = "lists built to be fused (2-7 rules sharing one of two option sets, differing in pattern kind: plain, '*', '^', anchors, /regex/, an uncompilable /regex/, tags, exceptions, important) plus grammar rules; non-trivial = the optimizer fused at least two rules of the list".into();
    let rs = resources();
    let n = 400 * a.scale;
    for _ in 0..n {
        let lines = fusable(&mut r);
        let rules = parse_all(&lines);
        if rules.is_empty() {
            continue;
        }
        // ---- optimizer::optimize on a bucket-like list (sorted by id, distinct ids)
        let mut bucket: Vec<NetworkFilter> = rules.clone();
        bucket.sort_by_key(|f| f.id);
        bucket.dedup_by_key(|f| f.id);
        let dumps: Vec<FilterDump> = bucket.iter().map(dump_filter).collect();
        let out: Vec<FilterDump> = adblock::verif_hooks::optimize(bucket.clone()).iter().map(dump_filter).collect();
        let fused = out.len() < dumps.len();
        cs.stat(if fused { "optimize_fused" } else { "optimize_nofusion" });
        cs.case(
            format!("view_eqb (bucket_view (optimize {})) {}", coq_rules(&dumps), clist(&out, view)),
            json!({"fn": "optimizer::optimize", "rules": lines, "impl": out.iter().map(|d| json!({"id": d.id, "patterns": d.filter})).collect::<Vec<_>>()}),
            fused,
        );
        // ---- NetworkFilterList::optimize on the dumped list
        let mut fl = FilterList::new(rules.clone(), false);
        let before = fl.dump();
        fl.optimize();
        let after = fl.dump();
        let m_coq = clist(&before, |(k, b)| format!("({}, {})", cn(*k), coq_rules(b)));
        let keys: Vec<u64> = before.iter().map(|(k, _)| *k).collect();
        let views = clist(&after, |(k, b)| format!("({}, {})", cn(*k), clist(b, view)));
        cs.stat("fl_optimize");
        cs.case(
            format!(
                "let m := {} in forallb (fun kv => view_eqb (bucket_view (bucket (fl_optimize m) (fst kv))) (snd kv)) {} && Nat.eqb (length {}) (length m)",
                m_coq, views, clist(&keys, |k| cn(*k))
            ),
            json!({"fn": "NetworkFilterList::optimize", "rules": lines}),
            after.iter().zip(before.iter()).any(|(x, y)| x.1.len() < y.1.len()),
        );
        // ---- oracle
        let tagsets: [&[&str]; 4] = [&[], &["t1"], &["t1", "t2"], &["t2"]];
        for (ti, tags) in tagsets.iter().enumerate() {
            let (off, on, live) = blockers(&lines, tags);
            if ti == 1 {
                // ---- Blocker::optimize / Blocker::new(optimize=true) on all eight lists vs blocker_optimize
                let d0 = adblock::verif_hooks::dump_blocker(&off);
                let m_coq = clist(&d0.lists, |(_, l)| clist(l, |(k, b)| format!("({}, {})", cn(*k), coq_rules(b))));
                for (which, bl) in [("Blocker::optimize", &live), ("Blocker::new(enable_optimizations)", &on)] {
                    let d1 = adblock::verif_hooks::dump_blocker(bl);
                    let v_coq = clist(&d1.lists, |(_, l)| clist(l, |(k, b)| format!("({}, {})", cn(*k), clist(b, view))));
                    cs.stat("blocker_optimize");
                    cs.case(
                        format!("blocker_views_eqb (blocker_optimize (mkb {})) {}", m_coq, v_coq),
                        json!({"fn": which, "rules": lines, "tags": tags}),
                        d1.lists.iter().zip(d0.lists.iter()).any(|(x, y)| x.1.iter().map(|b| b.1.len()).sum::<usize>() < y.1.iter().map(|b| b.1.len()).sum::<usize>()),
                    );
                }
            }
            // a live blocker that answered the queries BEFORE optimize() (compiled regexes cached) and is
            // optimised afterwards: the cache must not leak across the rebuild
            let mut warmed = Blocker::new(parse_all(&lines), &BlockerOptions { enable_optimizations: false });
            warmed.use_tags(tags);
            let mut warm_reqs: Vec<(String, String, &'static str, Request)> = vec![];
            for _ in 0..3 {
                if let Some(q) = clean_request(&mut r, &lines) {
                    let _ = observe(&warmed, &rs, &q.3);
                    warm_reqs.push(q);
                }
            }
            warmed.optimize();
            for (url, src, ty, req) in warm_reqs.iter() {
                sm.oracle_evaluations += 1;
                let (o0, ow) = (observe(&off, &rs, req), observe(&warmed, &rs, req));
                if o0 != ow && !has_bad_regex(&lines) {
                    sm.failure(None, &format!("unoptimized {:?} / queried, then optimize(), then queried again {:?}", o0.v, ow.v),
                        json!({"rules": lines, "tags": tags, "warm": true, "url": url, "source": src, "type": ty}));
                }
            }
            // a live blocker that was optimised and then extended through add_filter
            let (fam_urls, fam_cut) = FAMILY.with(|f| f.borrow().clone());
            let cut = fam_cut.unwrap_or_else(|| r.below(lines.len() + 1));
            REJECTED.with(|c| c.set(false));
            let ext = blocker_optimize_then_add(&lines, tags, cut);
            if REJECTED.with(|c| c.get()) {
                sm.failure(None, "after optimize(), add_filter refused a rule that was never added (FilterExists)", json!({"rules": lines, "tags": tags, "cut": cut, "url": "https://x.com/", "source": "https://a.com/", "type": "script"}));
            }
            let nq = if lines.len() > 30 { lines.len() } else { 3 + fam_urls.len() };
            for qi in 0..nq {
                let Some((mut url, src, ty, mut req)) = (if qi >= 3 && lines.len() <= 30 {
                    // the URLs the family of this list is about
                    let url = fam_urls[qi - 3].clone();
                    let ty = if lines[0].contains("image") { "image" } else { "script" };
                    Request::new(&url, "https://a.com/page", ty).ok().map(|q| { register_request(&q, &url, "https://a.com/page", ty); (url, "https://a.com/page".to_string(), ty, q) })
                } else if lines.len() > 30 {
                    // big group: one URL per member
                    let p = lines[qi].trim_start_matches("@@").split('$').next().unwrap_or("").to_string();
                    let url = format!("https://{}{}", r.pick(gen::HOSTS), p);
                    Request::new(&url, "https://a.com/page", "image").ok().map(|q| (url, "https://a.com/page".to_string(), "image", q))
                } else { clean_request(&mut r, &lines) }) else { continue };
                if !url.contains('?') && !url.contains('#') && lines.iter().any(|l| l.contains("removeparam=")) {
                    url = format!("{}?{}={}&{}={}", url, r.pick(gen::PARAMS), r.pick(gen::VOCAB), r.pick(gen::PARAMS), r.pick(gen::VOCAB));
                    let Ok(q) = Request::new(&url, &src, ty) else { continue };
                    req = q;
                }
                sm.oracle_evaluations += 1;
                let (o0, o1, o2) = (observe(&off, &rs, &req), observe(&on, &rs, &req), observe(&live, &rs, &req));
                if let Some(x) = &ext {
                    let o3 = observe(x, &rs, &req);
                    if o3 != o0 && !has_bad_regex(&lines) {
                        sm.failure(None, &format!("unoptimized {:?} / optimize() on the first {} rules, then add_filter of the rest {:?}", o0.v, cut, o3.v),
                            json!({"rules": lines, "tags": tags, "cut": cut, "url": url, "source": src, "type": ty}));
                    }
                }
                // the same comparison one level up: Engine::from_rules_parametrised with and without
                // optimisation (the constructor every list loader goes through)
                {
                    let mk = |optimize: bool| -> adblock::Engine {
                        let mut e = adblock::Engine::from_rules_parametrised(lines.iter(), Default::default(), false, optimize);
                        e.use_tags(tags);
                        e
                    };
                    let (e0, e1) = (mk(false), mk(true));
                    let (a, b) = (e0.check_network_request(&req), e1.check_network_request(&req));
                    let bits = |x: &adblock::blocker::BlockerResult| (x.matched, x.important, x.exception.is_some(), x.filter.is_some(), x.rewritten_url.clone());
                    sm.oracle_evaluations += 1;
                    cs.stat("engine_level_on_off");
                    if bits(&a) != bits(&b) && !has_bad_regex(&lines) {
                        sm.failure(None, &format!("Engine built without optimisation answers {:?}, built with optimisation {:?}", bits(&a), bits(&b)),
                            json!({"rules": lines, "tags": tags, "engine": true, "url": url, "source": src, "type": ty}));
                    }
                }
                if o0 != o1 || o0 != o2 {
                    let class = if has_bad_regex(&lines) { Some("F27_uncompilable_regex_in_fused_set") } else { None };
                    sm.failure(class, &format!("unoptimized {:?} / built optimized {:?} / after optimize() {:?}", o0.v, o1.v, o2.v),
                        json!({"rules": lines, "tags": tags, "url": url, "source": src, "type": ty}));
                }
            }
        }
    }
    // corpus: F31 (repaired in /repo e89168f) -- two equal-priority redirect rules, one of them stored
    // in several buckets: the redirect answer must not depend on optimisation
    for v in ["script", "script,third-party", "script,~image", "script,~font", "script,~media", "script,~object", "script,~ping"] {
        let lines: Vec<String> = vec![format!("${},redirect=noop.js,domain=a.com|b.com", v), "$script,redirect=noop.txt,domain=a.com".into()];
        let (off, on, live) = blockers(&lines, &[]);
        let req = Request::new("https://x.com/foo.js", "https://a.com/", "script").unwrap();
        sm.oracle_evaluations += 1;
        let (o0, o1, o2) = (observe(&off, &rs, &req), observe(&on, &rs, &req), observe(&live, &rs, &req));
        if o0 != o1 || o0 != o2 {
            sm.failure(None, &format!("redirect depends on optimisation: unoptimized {:?} / built optimized {:?} / after optimize() {:?}", o0.redirect, o1.redirect, o2.redirect),
                json!({"rules": lines, "tags": [], "url": "https://x.com/foo.js", "source": "https://a.com/", "type": "script"}));
        }
    }
    // corpus entry for the known class
    {
        let lines: Vec<String> = vec!["/ads(/".into(), "/banner[0-9]/".into()];
        let (off, on, _) = blockers(&lines, &[]);
        let req = Request::new("https://x.com/banner1", "https://a.com/", "script").unwrap();
        sm.oracle_evaluations += 1;
        if observe(&off, &rs, &req) != observe(&on, &rs, &req) {
            sm.failure(Some("F27_uncompilable_regex_in_fused_set"), "/ads(/ (does not compile) fused with /banner[0-9]/ silences the latter",
                json!({"rules": lines, "tags": [], "url": "https://x.com/banner1", "source": "https://a.com/", "type": "script"}));
        }
    }
    cs.finish();
    sm.write(&a.out, &cs);
}
