//! C04 — exception / important / $badfilter precedence; rule addition is monotone.
//!
//! Correspondence (Net_Model.v): `get_id`, `get_id_without_badfilter` (compute_filter_id) and the
//! set of rules surviving $badfilter cancellation (`live`) vs the dumped Blocker; the verdict
//! combiner is covered by C01's cases and re-checked here through `blocked_spec` of the model.
//! Oracles (implementation only): precedence formula vs per-rule scan; metamorphic pairs
//! engine(L) / engine(L ++ [x]) for exception and blocking rules x; y + y$badfilter cancels y and
//! nothing else; a $badfilter rule never matches.
use adblock::filters::network::{NetworkFilter, NetworkFilterMaskHelper};
use adblock::verif_hooks::{dump_engine_blocker, dump_filter, FilterDump};
use implrun::net::*;
use implrun::*;
use serde_json::{json, Value};
use std::collections::{BTreeSet, HashSet};

fn with_badfilter(line: &str) -> String {
    if line.contains('$') {
        format!("{},badfilter", line)
    } else {
        format!("{}$badfilter", line)
    }
}

fn is_ascii_rule(d: &FilterDump) -> bool {
    d.filter.iter().all(|s| s.is_ascii())
        && d.hostname.as_ref().map(|s| s.is_ascii()).unwrap_or(true)
        && d.modifier_option.as_ref().map(|s| s.is_ascii()).unwrap_or(true)
}

/// F20: compute_filter_id hashes filter and hostname back to back, so different (filter, hostname)
/// splits of the same concatenation collide.
fn f20_collision(y: &NetworkFilter, z: &NetworkFilter) -> bool {
    let cat = |f: &NetworkFilter| format!("{}{}", f.filter.string_view().unwrap_or_default(), f.hostname.clone().unwrap_or_default());
    cat(y) == cat(z) && (y.filter.string_view() != z.filter.string_view() || y.hostname != z.hostname)
}

fn replay(p: &std::path::Path) {
    let v: Value = serde_json::from_str(&std::fs::read_to_string(p).unwrap()).unwrap();
    let rp = &v["replay"];
    let get = |k: &str| -> Vec<String> { rp[k].as_array().map(|a| a.iter().map(|x| x.as_str().unwrap().to_string()).collect()).unwrap_or_default() };
    let base = get("rules");
    let extra = get("added");
    let tags = get("tags");
    let tagrefs: Vec<&str> = tags.iter().map(|s| &**s).collect();
    let req = adblock::request::Request::new(rp["url"].as_str().unwrap(), rp["source"].as_str().unwrap_or(""), rp["type"].as_str().unwrap_or("script")).unwrap();
    let mut all = base.clone();
    all.extend(extra.iter().cloned());
    let e0 = build_engine(&base, &tagrefs, false);
    let e1 = build_engine(&all, &tagrefs, false);
    let (v0, v1) = (engine_verdict(&e0, &req), engine_verdict(&e1, &req));
    let rules: Vec<NetworkFilter> = all.iter().filter_map(|l| parse_net(l)).collect();
    let want = spec_verdict(&rules, &tags.iter().cloned().collect(), &req);
    if rp["matched_rule"].as_bool().is_some() {
        let (mr, fc) = (rp["matched_rule"].as_bool().unwrap_or(false), rp["force_check_exceptions"].as_bool().unwrap_or(false));
        let (g, w) = (engine_verdict_p(&e1, &req, mr, fc), spec_verdict_p(&rules, &tags.iter().cloned().collect(), &req, mr, fc));
        println!("subset query ({}, {}): engine {:?}, rule-by-rule {:?}", mr, fc, g, w);
        if g != w {
            println!("VIOLATION property=C04 replay={}", p.display());
            std::process::exit(1);
        }
    }
    println!("engine(L)={:?}\nengine(L++added)={:?}\nrule-by-rule(L++added)={:?}\nkind={}", v0, v1, want, rp["kind"]);
    if rp["live"].as_bool().unwrap_or(false) {
        let base_rules: Vec<NetworkFilter> = base.iter().filter_map(|l| parse_net(l)).collect();
        let mut b = adblock::blocker::Blocker::new(base_rules, &adblock::blocker::BlockerOptions { enable_optimizations: false });
        b.use_tags(&tagrefs);
        for x in extra.iter().filter_map(|l| parse_net(l)) { let _ = b.add_filter(x); }
        let r3 = b.check(&req, &adblock::resources::ResourceStorage::default());
        let v3 = V { matched: r3.matched, important: r3.important, exception: r3.exception.is_some(), filter: r3.filter.is_some() };
        println!("live blocker after add_filter={:?}", v3);
        let bad = v3 != v1 || match rp["kind"].as_str().unwrap_or("") { "exception_monotone" => v3.matched && !v0.matched, "blocking_monotone" => v0.matched && !v3.matched, _ => false };
        if bad {
            println!("VIOLATION property=C04 replay={}", p.display());
            std::process::exit(1);
        }
        return;
    }
    if rp["later_call"].as_bool().unwrap_or(false) && extra.len() == 2 {
        let mut fs = adblock::FilterSet::new(true);
        let mut first = base.clone();
        first.push(extra[0].clone());
        fs.add_filters(first.iter(), Default::default());
        fs.add_filters([extra[1].clone()].iter(), Default::default());
        let mut e3 = adblock::Engine::from_filter_set(fs, false);
        e3.use_tags(&tagrefs);
        let v3 = engine_verdict(&e3, &req);
        println!("list + first rule in one call, the $badfilter twin in a later call: {:?}", v3);
        if v3 != v0 {
            println!("VIOLATION property=C04 replay={}", p.display());
            std::process::exit(1);
        }
    }
    let bad = match rp["kind"].as_str().unwrap_or("") {
        "exception_monotone" => v1.matched && !v0.matched,
        "blocking_monotone" => v0.matched && !v1.matched,
        "badfilter_pair" => v0 != v1,
        _ => v1 != want,
    };
    if bad {
        println!("VIOLATION property=C04 replay={}", p.display());
        std::process::exit(1);
    }
}

fn main() {
    let a = args();
    if let Some(p) = &a.replay {
        return replay(p);
    }
    let mut r = Rng::new(a.seed);
    let mut cs = Cases::new(&a.out, "Hashing Net_Model Net_Proofs C04_Proofs");
    cs.shard = 100;
    let mut sm = Summary::default();
    sm.rule = "rule lists from the shared grammar with deliberate (y, y$badfilter) pairs, badfilters with different options, duplicates; metamorphic additions of one exception / blocking rule; requests ASCII, http(s), with a source (so the C01 known classes cannot interfere); non-trivial = the list contains a $badfilter rule that cancels something, or the added rule matches the request".into();

    let n = 300 * a.scale;
    for li in 0..n {
        let nr = r.range(1, 8);
        // every third list from the list grammar (sibling groups with one-respect twins, rules dispatched
        // per source domain incl. bare public suffixes), the others rule by rule
        let mut lines: Vec<String> = if li % 3 == 1 { gen::rule_list(&mut r, nr, li % 4 == 0) } else { (0..nr).map(|_| gen::rule(&mut r, li % 4 == 0)).collect() };
        let mut cancels = false;
        if r.chance(2, 3) {
            let base = lines[r.below(lines.len())].clone();
            if !base.contains("badfilter") {
                match r.below(4) {
                    0 => {
                        // different option: must not cancel
                        lines.push(with_badfilter(&format!("{}{}", base, if base.contains('$') { ",image" } else { "$image" })));
                    }
                    _ => {
                        lines.push(with_badfilter(&base));
                        cancels = true;
                    }
                }
            }
        }
        let rules: Vec<NetworkFilter> = lines.iter().filter_map(|l| parse_net(l)).collect();
        let dumps: Vec<FilterDump> = rules.iter().map(dump_filter).collect();
        // -- ids
        for (f, d) in rules.iter().zip(dumps.iter()) {
            if !is_ascii_rule(d) {
                cs.stat("non_ascii_rule_skipped");
                continue;
            }
            cs.stat("ids");
            cs.case(
                format!("N.eqb (get_id {}) {} && N.eqb (get_id_without_badfilter {}) {}", coq_rule(d), cn(f.get_id()), coq_rule(d), cn(f.get_id_without_badfilter())),
                json!({"fn": "get_id/get_id_without_badfilter", "rule": d.raw_line, "impl": [f.get_id(), f.get_id_without_badfilter()]}),
                f.is_badfilter(),
            );
        }
        // -- live set vs the rules present in the built Blocker
        if dumps.iter().all(is_ascii_rule) {
            let e = build_engine(&lines, &[], false);
            let bd = dump_engine_blocker(&e);
            let mut present: BTreeSet<u64> = BTreeSet::new();
            for (_, l) in bd.lists.iter() {
                for (_, b) in l.iter() {
                    for f in b.iter() {
                        present.insert(f.id);
                    }
                }
            }
            for f in bd.tagged_filters_all.iter() {
                present.insert(f.id);
            }
            let present: Vec<u64> = present.into_iter().collect();
            cs.stat("live");
            cs.case(
                format!(
                    "let L := {} in let P := {} in forallb (fun i => memN i P) (ids_of (live L)) && forallb (fun i => memN i (ids_of (live L))) P",
                    coq_rules(&dumps), clist(&present, |x| cn(*x))
                ),
                json!({"fn": "live (rules surviving $badfilter)", "rules": lines, "impl_present_ids": present}),
                cancels,
            );
        }
        // -- oracles
        let tagsets: [&[&str]; 2] = [&[], &["t1", "t2"]];
        let tags: &[&str] = tagsets[r.below(2)];
        let tagset: HashSet<String> = tags.iter().map(|s| s.to_string()).collect();
        let e = build_engine(&lines, tags, false);
        for _ in 0..3 {
            let Some((url, src, ty, req)) = clean_request(&mut r, &lines) else { continue };
            let got = engine_verdict(&e, &req);
            let want = spec_verdict(&rules, &tagset, &req);
            sm.oracle_evaluations += 1;
            if got != want {
                sm.failure(None, &format!("precedence: engine {:?}, rule-by-rule {:?}", got, want),
                    json!({"kind": "precedence", "rules": lines, "added": [], "tags": tags, "url": url, "source": src, "type": ty}));
            }
            // the same precedence through the subset entry point (an earlier engine matched / exceptions
            // forced), all three non-trivial flag combinations
            for (mr, fc) in [(true, false), (false, true), (true, true)] {
                let (g, w) = (engine_verdict_p(&e, &req, mr, fc), spec_verdict_p(&rules, &tagset, &req, mr, fc));
                sm.oracle_evaluations += 1;
                if g != w {
                    sm.failure(None, &format!("precedence through check_network_request_subset(matched_rule={}, force_check_exceptions={}): engine {:?}, rule-by-rule {:?}", mr, fc, g, w),
                        json!({"kind": "precedence", "rules": lines, "added": [], "tags": tags, "url": url, "source": src, "type": ty, "matched_rule": mr, "force_check_exceptions": fc}));
                }
            }
            // a badfilter rule never matches anything
            for f in rules.iter().filter(|f| f.is_badfilter()) {
                sm.oracle_evaluations += 1;
                if rule_matches(f, &req) {
                    sm.failure(None, "a $badfilter rule matched a request",
                        json!({"kind": "badfilter_matches", "rules": [f.raw_line.as_ref().map(|b| (**b).clone())], "added": [], "tags": [], "url": url, "source": src, "type": ty}));
                }
            }
            // blocked_spec of the model on the same hits
            let matching: Vec<u64> = rules.iter().filter(|f| rule_matches(f, &req)).map(|f| f.id).collect();
            if dumps.iter().all(is_ascii_rule) {
                cs.stat("blocked_spec");
                cs.case(
                    format!("let L := {} in Bool.eqb (blocked_spec (fun f => memN (rid f) {}) L {}) {}",
                        coq_rules(&dumps), clist(&matching, |x| cn(*x)), clist(tags, |t| hxs(t)), cbool(got.matched)),
                    json!({"fn": "blocked_spec", "rules": lines, "tags": tags, "url": url, "source": src, "type": ty, "impl_matched": got.matched}),
                    !matching.is_empty(),
                );
            }
            // metamorphic: add one exception / one blocking rule
            for kind in ["exception_monotone", "blocking_monotone"] {
                let pat = match r.below(3) {
                    0 => gen::pattern(&mut r),
                    1 => url.split("://").nth(1).unwrap_or("x").split('/').next().map(|h| format!("||{}^", h)).unwrap(),
                    _ => {
                        // a rule that competes with a listed rule for one of its index tokens: shares one
                        // word of that rule's pattern (the bucket a rule is filed under depends on how
                        // often each of its tokens is used by the other rules)
                        let l = &lines[r.below(lines.len())];
                        let body = l.trim_start_matches("@@").split('$').next().unwrap_or("");
                        let words: Vec<&str> = body.split(|c: char| !c.is_ascii_alphanumeric()).filter(|w| w.len() > 1).collect();
                        if words.is_empty() { gen::pattern(&mut r) } else { format!("/{}/{}.", r.pick(&words), r.pick(gen::VOCAB)) }
                    }
                };
                let mut opts = vec![];
                if r.chance(1, 4) { opts.push("important".to_string()) }
                if r.chance(1, 4) { opts.push(format!("tag={}", r.pick(gen::TAGS))) }
                if r.chance(1, 4) { opts.push(gen::domain_opt(&mut r)) }
                let x = format!("{}{}{}{}", if kind == "exception_monotone" { "@@" } else { "" }, pat, if opts.is_empty() { "" } else { "$" }, opts.join(","));
                let Some(xf) = parse_net(&x) else { continue };
                if xf.is_badfilter() || xf.is_csp() || xf.is_removeparam() || xf.is_generic_hide() { continue }
                let mut l2 = lines.clone();
                l2.push(x.clone());
                let e2 = build_engine(&l2, tags, false);
                let g2 = engine_verdict(&e2, &req);
                sm.oracle_evaluations += 1;
                let bad = if kind == "exception_monotone" { g2.matched && !got.matched } else { got.matched && !g2.matched };
                if rule_matches(&xf, &req) { cs.stat("added_rule_matches") }
                if bad {
                    sm.failure(None, &format!("{}: engine(L).matched={} engine(L++[{}]).matched={}", kind, got.matched, x, g2.matched),
                        json!({"kind": kind, "rules": lines, "added": [x], "tags": tags, "url": url, "source": src, "type": ty}));
                }
                // the same addition on a LIVE blocker (Blocker::add_filter): same monotonicity, and the same
                // answer as the batch engine over L ++ [x]
                if !lines.iter().any(|l| l.contains("badfilter")) {
                    let mut b = adblock::blocker::Blocker::new(rules.clone(), &adblock::blocker::BlockerOptions { enable_optimizations: false });
                    b.use_tags(tags);
                    let fresh = !rules.iter().any(|f| f.id == xf.id);
                    let res = b.add_filter(xf.clone());
                    let rs = adblock::resources::ResourceStorage::default();
                    let g3r = b.check(&req, &rs);
                    let g3 = V { matched: g3r.matched, important: g3r.important, exception: g3r.exception.is_some(), filter: g3r.filter.is_some() };
                    sm.oracle_evaluations += 1;
                    cs.stat("live_add_filter");
                    let bad3 = if kind == "exception_monotone" { g3.matched && !got.matched } else { got.matched && !g3.matched };
                    if bad3 || g3 != g2 || (fresh && res.is_err()) {
                        sm.failure(None, &format!("{} through add_filter on a live blocker: before {:?}, after add_filter({}) = {:?} -> {:?}, batch engine over the same rules {:?}", kind, got, x, res, g3, g2),
                            json!({"kind": kind, "live": true, "rules": lines, "added": [x], "tags": tags, "url": url, "source": src, "type": ty}));
                    }
                }
            }
        }
        // y, y$badfilter: the pair must change nothing relative to the list without them
        {
            // (half of the time with a modifier: y$redirect=.. blocks as well, and its $badfilter twin must cancel it)
            let with_mod = r.chance(1, 2);
            let y = gen::rule(&mut r, with_mod);
            if let Some(yf) = parse_net(&y) {
                // (if the list already holds a twin of y, y$badfilter rightly cancels that one too: skip)
                if !yf.is_badfilter() && !rules.iter().any(|f| !f.is_badfilter() && f.get_id() == yf.get_id()) {
                    let z = with_badfilter(&y);
                    let mut l2 = lines.clone();
                    l2.push(y.clone());
                    l2.push(z.clone());
                    let e2 = build_engine(&l2, tags, false);
                    // the same pair loaded in SEPARATE calls: the list with y first, its $badfilter twin in a
                    // later add_filters / add_filter_list call on the same FilterSet
                    let e3 = {
                        let mut fs = adblock::FilterSet::new(true);
                        let mut first = lines.clone();
                        first.push(y.clone());
                        fs.add_filters(first.iter(), Default::default());
                        if r.chance(1, 2) { fs.add_filters([z.clone()].iter(), Default::default()); } else { fs.add_filter_list(&z, Default::default()); }
                        let mut e = adblock::Engine::from_filter_set(fs, false);
                        e.use_tags(tags);
                        e
                    };
                    let zf = parse_net(&z);
                    for _ in 0..2 {
                        let Some((url, src, ty, req)) = clean_request(&mut r, &[y.clone()]) else { continue };
                        sm.oracle_evaluations += 1;
                        let (v0, v1) = (engine_verdict(&e, &req), engine_verdict(&e2, &req));
                        let v3 = engine_verdict(&e3, &req);
                        if v3 != v0 {
                            sm.failure(None, &format!("loading {} with the list and {} in a later call changed the verdict from {:?} to {:?}", y, z, v0, v3),
                                json!({"kind": "badfilter_pair", "later_call": true, "rules": lines, "added": [y, z], "tags": tags, "url": url, "source": src, "type": ty}));
                        }
                        if v0 != v1 {
                            // does z cancel something else by an id collision (F20)?
                            let class: Option<&str> = None; // F20 (filter/hostname concatenation) is repaired: no carve-out
                            let _ = &zf;
                            sm.failure(class, &format!("adding {} and {} changed the verdict from {:?} to {:?}", y, z, v0, v1),
                                json!({"kind": "badfilter_pair", "rules": lines, "added": [y, z], "tags": tags, "url": url, "source": src, "type": ty}));
                        }
                    }
                }
            }
        }
    }
    // a family made systematically (not left to the random grammar): end-anchored rules whose LAST word
    // follows a wildcard, alone and next to a rule that competes for their other token; the URL
    // carries the last word only as the tail of a longer alphanumeric run (`…/ads/topbanner`)
    for w in ["banner", "js", "gif", "x1", "pixel"] {
        for pre in ["ads", "foo/ads/", "/x.", "ads/", "a1-b/"] {
            for glue in ["zz", "top", "9"] {
                let rule = format!("{}*{}|", pre, w);
                let url = format!("https://x.com/{}{}{}", pre.trim_start_matches('/'), glue, w);
                let Ok(req) = adblock::request::Request::new(&url, "https://a.com/", "script") else { continue };
                register_request(&req, &url, "https://a.com/", "script");
                let word = pre.split(|c: char| !c.is_ascii_alphanumeric()).filter(|x| x.len() > 1).next().unwrap_or("ads");
                for extra in [None, Some(format!("/{}/popup.", word)), Some(format!("@@/{}/zz9.", word))] {
                    let mut lines = vec![rule.clone()];
                    if let Some(x) = &extra { lines.push(x.clone()); }
                    let rules: Vec<NetworkFilter> = lines.iter().filter_map(|l| parse_net(l)).collect();
                    let e = build_engine(&lines, &[], false);
                    let (got, want) = (engine_verdict(&e, &req), spec_verdict(&rules, &HashSet::new(), &req));
                    sm.oracle_evaluations += 1;
                    cs.stat("end_anchored_word_after_wildcard");
                    if got != want {
                        sm.failure(None, &format!("end-anchored rule whose last word follows a wildcard: engine {:?}, rule-by-rule {:?}", got, want),
                            json!({"kind": "precedence", "rules": lines, "added": [], "tags": [], "url": url, "source": "https://a.com/", "type": "script"}));
                    }
                }
            }
        }
    }
    // long URLs (up to and beyond the tokenizer's 127-token cut-off): rules without any index token
    // live in the fallback bucket, which every request probes whatever its length; the precedence
    // formula must hold there too
    {
        // (all four without index token: the only token of each pattern runs to the unanchored end)
        let lines: Vec<String> = vec!["-sponsor".into(), "@@-sponso".into(), "-promo$important".into(), "@@-prom".into(), "_tracker".into()];
        let rules: Vec<NetworkFilter> = lines.iter().filter_map(|l| parse_net(l)).collect();
        let e = build_engine(&lines, &[], false);
        for k in [5usize, 60, 120, 124, 126, 127, 128, 129, 160, 300] {
            let segs: String = (0..k).map(|i| format!("s{}x", i)).collect::<Vec<_>>().join("/");
            for tail in ["/a-sponsor/b", "/a_tracker/b", "/a-promo/b", "/a-promo-x/-sponsor", "/nothing"] {
                let url = format!("https://h.example.com/{}{}", segs, tail);
                let Ok(req) = adblock::request::Request::new(&url, "https://a.com/", "script") else { continue };
                let (got, want) = (engine_verdict(&e, &req), spec_verdict(&rules, &HashSet::new(), &req));
                sm.oracle_evaluations += 1;
                cs.stat("long_url");
                if got != want {
                    sm.failure(None, &format!("URL of {} path segments: engine says {:?}, the precedence formula over the rule-by-rule hits says {:?}", k, got, want),
                        json!({"kind": "precedence", "rules": lines, "added": [], "tags": [], "url": url, "source": "https://a.com/", "type": "script"}));
                }
            }
        }
    }
    // near twins: z' differs from y in exactly one matching-relevant aspect (one type, the party
    // option, one entry of the domain list, its sign, important, one pattern byte): z'$badfilter must
    // cancel nothing, i.e. engine(L ++ [y, z']) answers like engine(L ++ [y]).  Independent of the
    // crate's own id function (which the rule-by-rule specification above has to use).
    for _ in 0..(300 * a.scale) {
        let pat = gen::pattern(&mut r);
        if pat.is_empty() { continue }
        let mut opts: Vec<String> = vec![];
        if r.chance(1, 2) { opts.push(r.pick(&["script", "image", "xhr", "~script", "font"]).to_string()); }
        if r.chance(1, 3) { opts.push(r.pick(&["third-party", "~third-party"]).to_string()); }
        let doms: Vec<String> = if r.chance(2, 3) {
            let n = r.range(1, 3);
            (0..n).map(|_| { let d = r.pick(gen::DOMAINS); if r.chance(1, 3) { format!("~{}", d) } else { d.to_string() } }).collect()
        } else { vec![] };
        let line = |pat: &str, opts: &[String], doms: &[String]| {
            let mut o: Vec<String> = opts.to_vec();
            if !doms.is_empty() { o.push(format!("domain={}", doms.join("|"))); }
            if o.is_empty() { pat.to_string() } else { format!("{}${}", pat, o.join(",")) }
        };
        let y = line(&pat, &opts, &doms);
        // one edit
        let (mut p2, mut o2, mut d2) = (pat.clone(), opts.clone(), doms.clone());
        let what = match r.below(7) {
            0 => { o2.push(r.pick(&["media", "object", "ping"]).to_string()); "type added" }
            1 => { if o2.iter().any(|x| x.contains("third-party")) { o2.retain(|x| !x.contains("third-party")); } else { o2.push("third-party".into()); } "party option toggled" }
            2 if !d2.is_empty() => { let k = r.below(d2.len()); d2[k] = if d2[k].starts_with('~') { d2[k][1..].to_string() } else { format!("~{}", d2[k]) }; "sign of one domain flipped" }
            3 if !d2.is_empty() => { let k = r.below(d2.len()); let neg = d2[k].starts_with('~'); d2[k] = format!("{}{}", if neg { "~" } else { "" }, r.pick(&["other.org", "zz.net"])); "one domain replaced" }
            4 => { d2.push(if r.chance(1, 2) { "~extra.org".to_string() } else { "extra.org".to_string() }); "domain added" }
            5 => { o2.push("important".into()); "important added" }
            _ => { p2.push('x'); "pattern byte added" }
        };
        let z = with_badfilter(&line(&p2, &o2, &d2));
        let (Some(yf), Some(zf)) = (parse_net(&y), parse_net(&z)) else { continue };
        let (dy, dz) = (dump_filter(&yf), dump_filter(&zf));
        if !zf.is_badfilter() || yf.is_badfilter() { continue }
        // same matching fields after parsing (e.g. `image` added to a rule that had it): not a near twin
        let bad_bit = adblock::filters::network::NetworkFilterMask::BAD_FILTER.bits();
        if (dy.mask, &dy.filter, &dy.hostname, &dy.opt_domains, &dy.opt_not_domains) == (dz.mask & !bad_bit, &dz.filter, &dz.hostname, &dz.opt_domains, &dz.opt_not_domains) { continue }
        let e1 = build_engine(&[y.clone()], &[], false);
        let e2 = build_engine(&[y.clone(), z.clone()], &[], false);
        for _ in 0..3 {
            let Some((url, _src, ty, _)) = clean_request(&mut r, &[y.clone()]) else { continue };
            // a source the rule's domain list accepts, when it has one
            let src = match doms.iter().find(|d| !d.starts_with('~')) { Some(d) if r.chance(3, 4) => format!("https://{}/page", d), _ => "https://elsewhere.example/".to_string() };
            let Ok(req) = adblock::request::Request::new(&url, &src, ty) else { continue };
            register_request(&req, &url, &src, ty);
            sm.oracle_evaluations += 1;
            let (v1, v2) = (engine_verdict(&e1, &req), engine_verdict(&e2, &req));
            if v1.matched { cs.stat("near_twin_rule_matches"); }
            if v1 != v2 {
                sm.failure(None, &format!("{} is cancelled by {} ({}): verdict {:?} -> {:?}", y, z, what, v1, v2),
                    json!({"kind": "badfilter_pair", "rules": [y], "added": [z], "tags": [], "url": url, "source": src, "type": ty}));
            }
        }
    }
    // ---- a rule WITHOUT any pattern token and with several `domain=` values (it is filed once per
    // domain) added to a LIVE blocker that already holds rules filed under some of those domains:
    // the added exception must un-block / the added blocking rule must block for every one of its
    // domains, as in the batch engine over the same rules
    {
        const DOMS: &[&str] = &["a.com", "b.com", "x.com", "foo.com", "ads.net", "example.org"];
        for it in 0..40 * a.scale {
            let (d1, d2, d3) = (DOMS[it % DOMS.len()], DOMS[(it / 2 + 1 + it % DOMS.len()) % DOMS.len()], DOMS[(it + 3) % DOMS.len()]);
            if d1 == d2 { continue; }
            let host = gen::HOSTS[it % gen::HOSTS.len()];
            let exception = it % 2 == 0;
            // the list: rules already filed under d1 (and sometimes d3), and the rule the addition plays against
            let mut lines: Vec<String> = vec![format!("@@*$image,domain={}", d1), "/zz9/filler.".to_string()];
            if it % 3 == 0 { lines.push(format!("*$font,domain={}", d3)); }
            if exception { lines.push(format!("||{}^", host)); } else { lines.push(format!("@@||{}^$image", host)); }
            let doms = match it % 4 { 0 => format!("{}|{}", d1, d2), 1 => format!("{}|{}", d2, d1), 2 => format!("{}|{}|{}", d2, d3, d1), _ => format!("{}|{}|{}", d1, d3, d2) };
            let x = format!("{}*$script,domain={}", if exception { "@@" } else { "" }, doms);
            let Some(xf) = parse_net(&x) else { continue };
            let rules: Vec<NetworkFilter> = lines.iter().filter_map(|l| parse_net(l)).collect();
            let mut l2 = lines.clone();
            l2.push(x.clone());
            for d in [d1, d2] {
                let (url, src) = (format!("https://{}/zz1/w.js", host), format!("https://{}/page", d));
                let Ok(req) = adblock::request::Request::new(&url, &src, "script") else { continue };
                register_request(&req, &url, &src, "script");
                let got = engine_verdict(&build_engine(&lines, &[], false), &req);
                let g2 = engine_verdict(&build_engine(&l2, &[], false), &req);
                let mut b = adblock::blocker::Blocker::new(rules.clone(), &adblock::blocker::BlockerOptions { enable_optimizations: false });
                let res = b.add_filter(xf.clone());
                let g3r = b.check(&req, &adblock::resources::ResourceStorage::default());
                let g3 = V { matched: g3r.matched, important: g3r.important, exception: g3r.exception.is_some(), filter: g3r.filter.is_some() };
                sm.oracle_evaluations += 1;
                cs.stat("live_add_filter_tokenless_multi_domain");
                let kind = if exception { "exception_monotone" } else { "blocking_monotone" };
                let bad3 = if exception { g3.matched && !got.matched } else { got.matched && !g3.matched };
                let all_rules: Vec<NetworkFilter> = l2.iter().filter_map(|l| parse_net(l)).collect();
                let want = spec_verdict(&all_rules, &HashSet::new(), &req);
                if bad3 || g3 != g2 || g3 != want || res.is_err() {
                    sm.failure(None, &format!("{} through add_filter of a token-less multi-domain rule on a live blocker: before {:?}, after add_filter({}) = {:?} -> {:?}, batch engine over the same rules {:?}, rule-by-rule {:?}", kind, got, x, res, g3, g2, want),
                        json!({"kind": kind, "live": true, "rules": lines, "added": [x], "tags": [], "url": url, "source": src, "type": "script"}));
                }
            }
        }
    }
    // known finding F20 (kept as a corpus entry; reported only while it still reproduces)
    {
        let lines: Vec<String> = vec!["||x.com/ad".into()];
        let added: Vec<String> = vec!["||.com/adx$badfilter".into()];
        let mut all = lines.clone();
        all.extend(added.iter().cloned());
        let req = adblock::request::Request::new("https://x.com/ad", "https://a.com/", "script").unwrap();
        let (v0, v1) = (engine_verdict(&build_engine(&lines, &[], false), &req), engine_verdict(&build_engine(&all, &[], false), &req));
        sm.oracle_evaluations += 1;
        if v0 != v1 {
            // was the known class F20_filter_id_concat; repaired in /repo b71a5fe: a regression is a violation
            sm.failure(None, "||.com/adx$badfilter cancels ||x.com/ad (filter and hostname are hashed back to back)",
                json!({"kind": "badfilter_pair", "rules": lines, "added": added, "tags": [], "url": "https://x.com/ad", "source": "https://a.com/", "type": "script"}));
        }
    }
    cs.finish();
    sm.write(&a.out, &cs);
}
