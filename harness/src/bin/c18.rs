//! C18 — scriptlet injection respects permissions and encodes arguments safely.
//!
//! Correspondence (model = coq/theories/C18_Model.v):
//!   * hooks `stringify_arg`, `parse_scriptlet_args`, `index_next_unescaped_separator`,
//!     `normalize_arg`, `patch_template_scriptlet`, `with_js_extension` vs the Gallina functions;
//!   * `PermissionMask::is_injectable_by` (exhaustive in Rust against the subset reference, a
//!     sample as Coq cases);
//!   * `ResourceStorage::from_resources` + `get_scriptlet_resources` on an *ordered* injection
//!     list (deterministic) and `get_redirect_resource` vs the model of the storage;
//!   * `Engine::url_cosmetic_resources(..).injected_script` for FilterSets assembled from lists
//!     with different permissions vs `host_script_ok` (the model's merge, any iteration order).
//! Oracle (independent of Coq): a JS string-literal recogniser applied to `stringify_arg` output
//! and to every literal of every emitted invocation; a permission oracle on the emitted script
//! (every emitted resource body / invocation is backed by a requesting rule whose list was
//! granted the bits; exceptions; blanket exception); permissioned resources never redirect.
use adblock::lists::{FilterSet, ParseOptions};
use adblock::request::Request;
use adblock::resources::verif as hooks;
use adblock::resources::{MimeType, PermissionMask, Resource, ResourceStorage, ResourceType};
use adblock::Engine;
use implrun::*;
use serde_json::{json, Value};
use std::collections::BTreeSet;

// ------------------------------------------------------------------------------ base64 (encode)
fn b64(data: &[u8]) -> String {
    const T: &[u8; 64] = b"ABCDEFGHIJKLMNOPQRSTUVWXYZabcdefghijklmnopqrstuvwxyz0123456789+/";
    let mut o = String::new();
    for ch in data.chunks(3) {
        let b = [ch[0], *ch.get(1).unwrap_or(&0), *ch.get(2).unwrap_or(&0)];
        let n = ((b[0] as u32) << 16) | ((b[1] as u32) << 8) | b[2] as u32;
        o.push(T[(n >> 18) as usize & 63] as char);
        o.push(T[(n >> 12) as usize & 63] as char);
        o.push(if ch.len() > 1 { T[(n >> 6) as usize & 63] as char } else { '=' });
        o.push(if ch.len() > 2 { T[n as usize & 63] as char } else { '=' });
    }
    o
}

// ------------------------------------------------------------------------------ JS literal oracle
/// Recogniser of ECMAScript double-quoted string literals (independent re-statement of the L0
/// definition): returns (value as UTF-8 bytes, number of bytes consumed incl. both quotes).
fn js_literal(s: &[u8]) -> Option<(Vec<u8>, usize)> {
    if s.first() != Some(&b'"') {
        return None;
    }
    let mut i = 1;
    let mut out = vec![];
    loop {
        let c = *s.get(i)?;
        match c {
            b'"' => return Some((out, i + 1)),
            b'\\' => {
                let e = *s.get(i + 1)?;
                i += 2;
                match e {
                    b'"' => out.push(b'"'),
                    b'\\' => out.push(b'\\'),
                    b'b' => out.push(8),
                    b't' => out.push(9),
                    b'n' => out.push(10),
                    b'f' => out.push(12),
                    b'r' => out.push(13),
                    b'u' => {
                        let h = s.get(i..i + 4)?;
                        let t = std::str::from_utf8(h).ok()?;
                        if !t.bytes().all(|b| b.is_ascii_hexdigit()) {
                            return None;
                        }
                        let v = u32::from_str_radix(t, 16).ok()?;
                        let ch = char::from_u32(v)?; // refuses surrogates
                        let mut buf = [0u8; 4];
                        out.extend_from_slice(ch.encode_utf8(&mut buf).as_bytes());
                        i += 4;
                    }
                    _ => return None,
                }
            }
            0..=0x1f => return None,
            _ => {
                out.push(c);
                i += 1;
            }
        }
    }
}

// ------------------------------------------------------------------------------ string generators
const ATOMS: &[&str] = &[
    "a", "foo", "Number.isNaN", "x y", "\"", "\\", "\\\"", "'", "`", ",", "\\,", "$", "$$", "$1", "{{1}}", "{{2}}",
    "\n", "\r", "\t", "\u{8}", "\u{c}", "\u{0}", "\u{1}", "\u{1f}", "\u{7f}", "\u{80}", "\u{a0}", "é", "\u{2028}",
    "\u{2029}", "\u{3000}", "😀", "</script>", "*/", "//", ")", "(", "}", "{", " ", "  ", "\\u0041", "\\n", "\\\\", "u",
    "try {\n", "\n} catch ( e ) { }\n", "\u{85}", "\u{1680}", "\u{200a}", "\u{205f}", "\u{feff}", "\u{b}",
];

fn gen_string(r: &mut Rng, lo: usize, hi: usize) -> String {
    let n = r.range(lo, hi);
    let mut s = String::new();
    for _ in 0..n {
        if r.chance(1, 6) {
            // any scalar value below 0x100 or a random BMP one
            let v = if r.chance(2, 3) { r.below(0x100) as u32 } else { r.below(0xd7ff) as u32 };
            if let Some(c) = char::from_u32(v) {
                s.push(c);
            }
        } else {
            s.push_str(r.pick(ATOMS));
        }
    }
    s
}

/// Atoms that can live inside one line of a filter list (no line breaks).
const LINE_ATOMS: &[&str] = &[
    "a", "foo", "Number.isNaN", "x y", "\"", "\\", "\\\"", "'", "`", "\\,", "$", "$$", "$1", "{{1}}", "{{2}}", "\t",
    "\u{1}", "\u{1f}", "\u{7f}", "\u{a0}", "é", "\u{2028}", "\u{2029}", "\u{3000}", "😀", "</script>", "*/", ")", "(",
    "}", "{", " ", "\\u0041", "\\n", "\\\\", "#", "##", "b",
];

/// One argument as written in a rule (`quoting` chooses the spelling).
fn gen_rule_arg(r: &mut Rng) -> String {
    let n = r.range(0, 3);
    let mut s = String::new();
    for _ in 0..n {
        s.push_str(r.pick(LINE_ATOMS));
    }
    match r.below(8) {
        0 => format!("\"{}\"", s.replace('"', "\\\"")),
        1 => format!("'{}'", s.replace('\'', "\\'")),
        2 => format!("`{}`", s.replace('`', "\\`")),
        3 => format!(" {} ", s),
        _ => s,
    }
}

fn store_names(res: &[Res]) -> Vec<String> {
    let mut v = vec![];
    for x in res {
        v.push(x.name.clone());
        if x.mime == Some("application/javascript") || x.mime.is_none() {
            for _ in 0..3 {
                v.push(x.name.clone());
                v.push(x.name.trim_end_matches(".js").to_string());
            }
        }
        for a in &x.aliases {
            v.push(a.clone());
        }
    }
    v.push("nosuch".into());
    v.push("S0".into());
    v
}

fn gen_arg_list(r: &mut Rng, names: &[&str]) -> String {
    let mut parts = vec![r.pick(names).to_string()];
    let n = if r.chance(1, 10) { r.range(4, 11) } else { r.range(0, 3) };
    for _ in 0..n {
        parts.push(gen_rule_arg(r));
    }
    let sep = if r.chance(1, 2) { ", " } else { "," };
    parts.join(sep)
}

/// Arbitrary text for the parser hooks (may be malformed).
fn gen_parser_text(r: &mut Rng) -> String {
    const P: &[&str] = &[
        "a", "foo", ",", ", ", " ,", "\\,", "\\", "\\\\", "\"", "'", "`", "\\\"", "\\'", " ", "\t", "\u{a0}",
        "\u{3000}", "\u{2028}", "é", "{", "}", "b c", "\u{85}", "\u{1680}", "\u{200a}", "\u{205f}", "\u{200b}", "x",
    ];
    let n = r.range(0, 8);
    let mut s = String::new();
    for _ in 0..n {
        s.push_str(r.pick(P));
    }
    s
}

// ------------------------------------------------------------------------------ resources
#[derive(Clone, Debug)]
enum Dec {
    BadB64,
    NotUtf8,
    Text(String),
}
#[derive(Clone, Debug)]
struct Res {
    name: String,
    aliases: Vec<String>,
    mime: Option<&'static str>, // None = Template
    content: String,
    dec: Dec,
    deps: Vec<String>,
    perm: u8,
}
const MIMES: &[(&str, &str)] = &[
    ("text/css", "MT_TextCss"),
    ("image/gif", "MT_ImageGif"),
    ("text/html", "MT_TextHtml"),
    ("application/javascript", "MT_ApplicationJavascript"),
    ("application/json", "MT_ApplicationJson"),
    ("audio/mp3", "MT_AudioMp3"),
    ("video/mp4", "MT_VideoMp4"),
    ("image/png", "MT_ImagePng"),
    ("text/plain", "MT_TextPlain"),
    ("text/xml", "MT_TextXml"),
    ("fn/javascript", "MT_FnJavascript"),
    ("application/octet-stream", "MT_Unknown"),
];
impl Res {
    fn text(&self) -> Option<&str> {
        match &self.dec {
            Dec::Text(t) => Some(t),
            _ => None,
        }
    }
    fn fname(&self) -> Option<String> {
        self.text().and_then(|t| hooks::extract_function_name(t).map(|s| s.to_string()))
    }
    fn to_resource(&self) -> Resource {
        Resource {
            name: self.name.clone(),
            aliases: self.aliases.clone(),
            kind: match self.mime {
                Some(m) => ResourceType::Mime(MimeType::from(m)),
                None => ResourceType::Template,
            },
            content: self.content.clone(),
            dependencies: self.deps.clone(),
            permission: PermissionMask::from_bits(self.perm),
        }
    }
    fn coq(&self) -> String {
        let kind = match self.mime {
            Some(m) => format!("(RK_Mime {})", MIMES.iter().find(|x| x.0 == m).unwrap().1),
            None => "RK_Template".to_string(),
        };
        let dec = match &self.dec {
            Dec::BadB64 => "BadBase64".to_string(),
            Dec::NotUtf8 => "NotUtf8".to_string(),
            Dec::Text(t) => format!("(Text {})", hxs(t)),
        };
        format!(
            "(mkRes {} {} {} {} {} {} {} {})",
            hxs(&self.name),
            cstrs(&self.aliases),
            kind,
            hxs(&self.content),
            dec,
            copt(&self.fname(), |s| hxs(s)),
            cstrs(&self.deps),
            cn(self.perm)
        )
    }
    fn json(&self) -> Value {
        json!({"name": self.name, "aliases": self.aliases, "mime": self.mime, "content": self.content,
               "text": self.text(), "deps": self.deps, "perm": self.perm})
    }
    fn from_json(v: &Value) -> Res {
        let strs = |x: &Value| x.as_array().map(|a| a.iter().map(|s| s.as_str().unwrap().to_string()).collect()).unwrap_or_default();
        let mime = v["mime"].as_str().map(|m| MIMES.iter().find(|x| x.0 == m).unwrap().0);
        let content = v["content"].as_str().unwrap().to_string();
        let dec = match v["text"].as_str() {
            Some(t) => Dec::Text(t.to_string()),
            None => {
                if content.starts_with('!') {
                    Dec::BadB64
                } else {
                    Dec::NotUtf8
                }
            }
        };
        Res { name: v["name"].as_str().unwrap().into(), aliases: strs(&v["aliases"]), mime, content, dec, deps: strs(&v["deps"]), perm: v["perm"].as_u64().unwrap() as u8 }
    }
}

fn marker(name: &str) -> String {
    format!("/*@{}@*/", name)
}

const NAMES: &[&str] = &["s0.js", "s1.js", "s2.js", "s3.js", "d0.fn", "d1.fn", "d2.fn", "t0.js", "img.gif", "noext"];
const ALIASES: &[&str] = &["s0", "s1", "al0", "al1", "al2", "s2.js", "d0.fn", "al3.js"];
const PERMS: &[u8] = &[0, 0, 0, 0, 0, 0, 0, 1, 2, 3, 1, 2, 0x80, 0xff, 5, 0];

fn gen_resources(r: &mut Rng) -> Vec<Res> {
    let friendly = r.chance(1, 2);
    let n = r.range(1, 7);
    let mut v: Vec<Res> = vec![];
    for i in 0..n {
        let name = if !friendly && r.chance(1, 12) { r.pick(NAMES).to_string() } else { NAMES[i % NAMES.len()].to_string() };
        let mut aliases = vec![];
        for _ in 0..(if r.chance(1, 2) { 0 } else { r.range(1, 2) }) {
            aliases.push(if friendly { format!("al{}", i) } else { r.pick(ALIASES).to_string() });
        }
        let (mime, style): (Option<&'static str>, usize) = if name.ends_with(".fn") {
            (Some("fn/javascript"), 0)
        } else if name.starts_with('t') {
            (if r.chance(1, 2) { None } else { Some("application/javascript") }, 1)
        } else if name.ends_with(".gif") {
            (Some("image/gif"), 3)
        } else {
            match r.below(12) {
                0 => (None, r.below(2)),
                1 => (Some("fn/javascript"), 0),
                2 => (Some("text/plain"), r.below(2)),
                3 => (Some("application/javascript"), 1),
                4 => (Some("application/javascript"), 2),
                _ => (Some("application/javascript"), 0),
            }
        };
        let mk = marker(&name);
        let id = name.replace('.', "_");
        let text = match style {
            0 => match r.below(6) {
                0 => format!("function  {}_f (a, b) {{ {} return a; }}", id, mk),
                1 => format!("function\t{}_f(a) {{{}}}", id, mk),
                _ => format!("function {}_f(a, b, c) {{ {} }}", id, mk),
            },
            1 => format!("{} (function() {{ var a = '{{{{1}}}}'; var b = \"{{{{2}}}}\"; c({{{{1}}}}, {{{{3}}}}); }})();", mk),
            2 => format!("{} function(){{}} /* no name */ {{{{1}}}}", mk),
            _ => format!("GIF89a{}", mk),
        };
        let (content, dec) = match if friendly { 9 } else { r.below(40) } {
            0 => ("!!!not-base64".to_string(), Dec::BadB64),
            1 => (b64(&[0xff, 0xfe, b'A', b'B']), Dec::NotUtf8),
            _ => (b64(text.as_bytes()), Dec::Text(text)),
        };
        let mut deps = vec![];
        let nd = if r.chance(1, 2) { 0 } else { r.range(1, 3) };
        for _ in 0..nd {
            deps.push(match if friendly { 4 + r.below(10) } else { r.below(20) } {
                0 => "missing.fn".to_string(),
                1 | 2 => r.pick(ALIASES).to_string(),
                3 => r.pick(&NAMES[..7]).to_string(),
                _ => NAMES[r.below(n.min(7))].to_string(),
            });
        }
        let perm = if friendly { r.pick(&[0u8, 0, 0, 0, 1, 2, 3]) } else { r.pick(PERMS) };
        v.push(Res { name, aliases, mime, content, dec, deps, perm });
    }
    v
}

const SCRIPTLET_NAMES: &[&str] = &["s0", "s0.js", "s1", "s2.js", "s3", "t0", "t0.js", "al0", "al1", "al3", "d0.fn", "img.gif", "nosuch", "noext", "al3.js", "S0"];

// ------------------------------------------------------------------------------ reference semantics
/// Independent resolver over the resources the storage accepted.
struct Ref {
    res: Vec<Res>,
}
impl Ref {
    /// `accepted` = the resources for which `add_resource` returned Ok, in order.
    fn lookup(&self, ident: &str) -> Option<&Res> {
        self.res.iter().find(|x| x.name == ident).or_else(|| self.res.iter().find(|x| x.aliases.iter().any(|a| a == ident)))
    }
    /// Canonical names reachable through dependencies (the resource itself included).
    fn closure<'a>(&'a self, start: &'a Res) -> Vec<&'a Res> {
        let mut seen: Vec<&Res> = vec![start];
        let mut i = 0;
        while i < seen.len() {
            let cur = seen[i];
            for d in &cur.deps {
                if let Some(x) = self.lookup(d) {
                    if !seen.iter().any(|s| s.name == x.name) {
                        seen.push(x);
                    }
                }
            }
            i += 1;
        }
        seen
    }
}
fn subset(r: u8, f: u8) -> bool {
    (0..8).all(|i| (r >> i) & 1 == 0 || (f >> i) & 1 == 1)
}

/// One requesting rule as seen by a host: argument text and the permission of its list.
#[derive(Clone, Debug)]
struct Req {
    text: String,
    mask: u8,
}

/// Splits an injected script into the dependency section and the try-blocks.
fn split_script(s: &str) -> (String, Vec<String>) {
    const OPEN: &str = "try {\n";
    const CLOSE: &str = "\n} catch ( e ) { }\n";
    // resource bodies in this harness never contain OPEN, so the first OPEN starts the blocks
    let Some(start) = s.find(OPEN) else { return (s.to_string(), vec![]) };
    let deps = s[..start].to_string();
    let mut blocks = vec![];
    let mut rest = &s[start..];
    while let Some(x) = rest.strip_prefix(OPEN) {
        match x.find(CLOSE) {
            Some(e) => {
                blocks.push(x[..e].to_string());
                rest = &x[e + CLOSE.len()..];
            }
            None => {
                blocks.push(format!("<<unterminated>>{}", x));
                rest = "";
            }
        }
    }
    if !rest.is_empty() {
        blocks.push(format!("<<trailing>>{}", rest));
    }
    (deps, blocks)
}

/// Parses `name("a", "b")`; returns the name and the literal values.
fn parse_invocation(b: &str) -> Option<(String, Vec<Vec<u8>>)> {
    let p = b.find('(')?;
    let name = b[..p].to_string();
    let bytes = b.as_bytes();
    let mut i = p + 1;
    let mut args = vec![];
    if bytes.get(i) == Some(&b')') {
        return if i + 1 == bytes.len() { Some((name, args)) } else { None };
    }
    loop {
        let (v, n) = js_literal(&bytes[i..])?;
        args.push(v);
        i += n;
        if bytes[i..].starts_with(b", ") {
            i += 2;
        } else if bytes.get(i) == Some(&b')') && i + 1 == bytes.len() {
            return Some((name, args));
        } else {
            return None;
        }
    }
}

struct Verdict {
    class: Option<&'static str>,
    what: String,
}

/// The permission / literal / exception oracle on one emitted script.
/// `reqs`: the requesting rules that apply and are not excepted; `excepted`: texts removed by an
/// exception; `blanket`: a blanket exception applies.
fn oracle_script(rf: &Ref, script: &str, reqs: &[Req], excepted: &[String], blanket: bool) -> Vec<Verdict> {
    let mut out = vec![];
    let (deps, blocks) = split_script(script);
    if blanket && !script.is_empty() {
        out.push(Verdict { class: None, what: "blanket exception #@#+js() applies but a script was injected".into() });
        return out;
    }
    // candidates: for every request, its resolved scriptlet (if any)
    let resolved: Vec<(&Req, Option<Vec<String>>, Option<&Res>)> = reqs
        .iter()
        .map(|q| {
            let parsed = hooks::parse_scriptlet_args(&q.text);
            let res = parsed.as_ref().and_then(|p| p.first()).and_then(|n| {
                let n = if n.ends_with(".js") { n.clone() } else { format!("{}.js", n) };
                rf.lookup(&n)
            });
            (q, parsed, res)
        })
        .collect();
    // union of masks per identical text (what F18 is about)
    let union = |text: &str| reqs.iter().filter(|q| q.text == text).fold(0u8, |a, q| a | q.mask);
    // ---- dependency section: every resource body present must be backed by a request
    for x in &rf.res {
        let Some(t) = x.text() else { continue };
        if !deps.contains(&marker(&x.name)) {
            continue;
        }
        let _ = t;
        let backers: Vec<&Req> = resolved
            .iter()
            .filter(|(_, _, s)| s.map(|s| rf.closure(s).iter().any(|c| c.name == x.name)).unwrap_or(false))
            .map(|(q, _, _)| *q)
            .collect();
        if backers.iter().any(|q| subset(x.perm, q.mask)) {
            continue;
        }
        if backers.iter().any(|q| subset(x.perm, union(&q.text))) {
            out.push(Verdict { class: Some("F18_permission_union"), what: format!("resource {} (requires {:#010b}) is injected although no single list that requested it was granted these bits; the union of the lists' masks was used", x.name, x.perm) });
        } else {
            out.push(Verdict { class: None, what: format!("resource {} (requires {:#010b}) is in the injected script but no requesting rule on this host was granted these bits", x.name, x.perm) });
        }
    }
    // ---- blocks
    for b in &blocks {
        if b.starts_with("<<") {
            out.push(Verdict { class: None, what: format!("injected script is not a sequence of try-blocks: {:?}", b) });
            continue;
        }
        // function style?
        let fn_owner = rf.res.iter().find(|x| x.fname().map(|f| b.starts_with(&format!("{}(", f))).unwrap_or(false));
        let (owner, literal_args) = if let Some(o) = fn_owner {
            match parse_invocation(b) {
                Some((_, a)) => (o, Some(a)),
                None => {
                    out.push(Verdict { class: None, what: format!("invocation {:?} is not name(\"lit\", ..): an argument escaped its literal", b) });
                    continue;
                }
            }
        } else {
            match rf.res.iter().find(|x| b.contains(&marker(&x.name))) {
                Some(o) => (o, None),
                None => {
                    out.push(Verdict { class: None, what: format!("block {:?} belongs to no resource", b) });
                    continue;
                }
            }
        };
        // requests that resolve to the owner (and, for function style, whose arguments are these)
        let cands: Vec<&(&Req, Option<Vec<String>>, Option<&Res>)> = resolved
            .iter()
            .filter(|(_, p, s)| {
                s.map(|s| s.name == owner.name).unwrap_or(false)
                    && match (&literal_args, p) {
                        (Some(la), Some(p)) => p.len() == la.len() + 1 && p[1..].iter().zip(la.iter()).all(|(x, y)| x.as_bytes() == &y[..]),
                        (None, _) => true,
                        _ => false,
                    }
            })
            .collect();
        if cands.is_empty() {
            if excepted.iter().any(|t| {
                hooks::parse_scriptlet_args(t).and_then(|p| p.first().cloned()).map(|n| rf.lookup(&if n.ends_with(".js") { n.clone() } else { format!("{}.js", n) }).map(|s| s.name == owner.name).unwrap_or(false)).unwrap_or(false)
            }) {
                out.push(Verdict { class: None, what: format!("block {:?}: the only rules asking for it are excepted (or its literals differ from the rule's arguments)", b) });
            } else {
                out.push(Verdict { class: None, what: format!("block {:?}: no applicable rule asks for this scriptlet with these argument values", b) });
            }
            continue;
        }
        // permission of the scriptlet itself and of its transitive dependencies
        let need_self = owner.perm;
        let need_closure = rf.closure(owner).iter().fold(0u8, |a, c| a | c.perm);
        let need_direct = owner.deps.iter().filter_map(|d| rf.lookup(d)).fold(owner.perm, |a, c| a | c.perm);
        if cands.iter().any(|(q, _, _)| subset(need_closure, q.mask)) {
            continue;
        }
        if cands.iter().any(|(q, _, _)| subset(need_closure, union(&q.text))) {
            out.push(Verdict { class: Some("F18_permission_union"), what: format!("{} invoked: it and its dependencies require {:#010b}; no single requesting list was granted that, the per-host union of masks was", owner.name, need_closure) });
        } else if cands.iter().any(|(q, _, _)| subset(need_self, union(&q.text)))
            && !cands.iter().any(|(q, _, _)| subset(need_direct, union(&q.text))) {
            // the gate sits in front of the "already collected" test: a DIRECT dependency is always
            // gated; the recorded class only concerns what lies below an already collected dependency
            out.push(Verdict { class: None, what: format!("{} invoked by a rule whose list lacks bits required by one of its DIRECT dependencies (it and they require {:#010b})", owner.name, need_direct) });
        } else if cands.iter().any(|(q, _, _)| subset(need_self, union(&q.text))) {
            out.push(Verdict { class: Some("F25_visited_dependency_skips_gate"), what: format!("{} invoked by a rule whose list lacks bits required by one of its transitive dependencies (closure requires {:#010b}): the dependency had already been collected for another injection, so its subtree was not re-checked", owner.name, need_closure) });
        } else {
            out.push(Verdict { class: None, what: format!("{} (requires {:#010b}) invoked without permission", owner.name, need_self) });
        }
    }
    out
}

// ------------------------------------------------------------------------------ engine level
#[derive(Clone, Debug)]
struct Rule {
    hosts: Vec<(String, bool)>, // (hostname, negated)
    unhide: bool,
    text: String,
    list: usize,
}
impl Rule {
    fn line(&self) -> String {
        let hs: Vec<String> = self.hosts.iter().map(|(h, n)| format!("{}{}", if *n { "~" } else { "" }, h)).collect();
        format!("{}{}+js({})", hs.join(","), if self.unhide { "#@#" } else { "##" }, self.text)
    }
}
const HOSTS: &[&str] = &["example.com", "sub.example.com", "other.org"];
fn applies(rule_host: &str, host: &str) -> bool {
    host == rule_host || host.ends_with(&format!(".{}", rule_host))
}

struct EngineCase {
    masks: Vec<u8>,
    rules: Vec<Rule>,
    resources: Vec<Res>,
    host: String,
}
impl EngineCase {
    fn json(&self, loaded: &[bool], script: &str) -> Value {
        json!({"kind": "engine", "list_masks": self.masks, "host": self.host,
               "rules": self.rules.iter().zip(loaded).map(|(r, l)| json!({"line": r.line(), "list": r.list, "loaded": l})).collect::<Vec<_>>(),
               "rule_specs": self.rules.iter().map(|r| json!({"hosts": r.hosts, "unhide": r.unhide, "text": r.text, "list": r.list})).collect::<Vec<_>>(),
               "resources": self.resources.iter().map(|r| r.json()).collect::<Vec<_>>(),
               "injected_script": script})
    }
    fn from_json(v: &Value) -> EngineCase {
        EngineCase {
            masks: v["list_masks"].as_array().unwrap().iter().map(|x| x.as_u64().unwrap() as u8).collect(),
            host: v["host"].as_str().unwrap().into(),
            resources: v["resources"].as_array().unwrap().iter().map(Res::from_json).collect(),
            rules: v["rule_specs"].as_array().unwrap().iter().map(|r| Rule {
                hosts: r["hosts"].as_array().unwrap().iter().map(|h| (h[0].as_str().unwrap().to_string(), h[1].as_bool().unwrap())).collect(),
                unhide: r["unhide"].as_bool().unwrap(),
                text: r["text"].as_str().unwrap().into(),
                list: r["list"].as_u64().unwrap() as usize,
            }).collect(),
        }
    }
}

struct EngineRun {
    loaded: Vec<bool>,
    script: String,
    accepted: Vec<Res>,
    injs: Vec<Req>,
    excs: Vec<String>,
}

fn accepted_resources(resources: &[Res]) -> Vec<Res> {
    let mut st = ResourceStorage::default();
    let mut acc = vec![];
    for x in resources {
        if st.add_resource(x.to_resource()).is_ok() {
            acc.push(x.clone());
        }
    }
    acc
}

fn run_engine(c: &EngineCase) -> Result<EngineRun, String> {
    let mut set = FilterSet::new(false);
    let mut loaded = vec![];
    for r in &c.rules {
        let opts = ParseOptions { permissions: PermissionMask::from_bits(c.masks[r.list]), ..Default::default() };
        loaded.push(set.add_filter(&r.line(), opts).is_ok());
    }
    let resources: Vec<Resource> = c.resources.iter().map(|x| x.to_resource()).collect();
    // use_resources REPLACES what was loaded: in every other case (decided by the case itself, so a
    // replay repeats it) an earlier call loads the same identifiers WITHOUT any permission requirement
    // and without dependencies; nothing of it may survive the second call
    let prior: Option<Vec<Resource>> = if (c.host.len() + c.rules.len() + c.resources.len()) % 2 == 0 {
        Some(c.resources.iter().map(|x| { let mut y = x.to_resource(); y.permission = PermissionMask::from_bits(0); y.dependencies = vec![]; y }).collect())
    } else { None };
    let host = c.host.clone();
    let script = catch(move || {
        let mut engine = Engine::from_filter_set(set, true);
        if let Some(p) = prior { engine.use_resources(p); }
        engine.use_resources(resources);
        engine.url_cosmetic_resources(&format!("https://{}/page", host)).injected_script
    })?;
    let mut injs = vec![];
    let mut excs = vec![];
    for (r, l) in c.rules.iter().zip(&loaded) {
        if !*l {
            continue;
        }
        for (h, neg) in &r.hosts {
            if applies(h, &c.host) {
                if r.unhide != *neg {
                    excs.push(r.text.clone());
                } else {
                    injs.push(Req { text: r.text.clone(), mask: c.masks[r.list] });
                }
            }
        }
    }
    Ok(EngineRun { loaded, script, accepted: accepted_resources(&c.resources), injs, excs })
}

fn engine_oracle(run: &EngineRun) -> Vec<Verdict> {
    let blanket = run.excs.iter().any(|e| e.is_empty());
    let live: Vec<Req> = run.injs.iter().filter(|q| !run.excs.contains(&q.text)).cloned().collect();
    let excepted: Vec<String> = run.injs.iter().filter(|q| run.excs.contains(&q.text)).map(|q| q.text.clone()).collect();
    let rf = Ref { res: run.accepted.clone() };
    oracle_script(&rf, &run.script, if blanket { &[] } else { &live }, &excepted, blanket)
}

fn gen_engine_case(r: &mut Rng) -> EngineCase {
    let resources = gen_resources(r);
    let nl = r.range(1, 3);
    let masks: Vec<u8> = (0..nl).map(|_| r.pick(&[0u8, 1, 2, 3, 0, 1, 2, 0xff, 4, 3, 0xff])).collect();
    let mut rules: Vec<Rule> = vec![];
    let nr = r.range(1, 5);
    let mut texts: Vec<String> = vec![];
    for _ in 0..nr {
        let sn = store_names(&resources);
        let sn: Vec<&str> = sn.iter().map(|s| s.as_str()).collect();
        let text = if !texts.is_empty() && r.chance(2, 5) { r.pick(&texts.iter().map(|s| s.as_str()).collect::<Vec<_>>()).to_string() } else { { let any = r.chance(1, 8); gen_arg_list(r, if any { SCRIPTLET_NAMES } else { &sn }) } };
        texts.push(text.clone());
        let mut hosts = vec![(r.pick(&["example.com", "example.com", "sub.example.com", "sub.example.com", "other.org"]).to_string(), false)];
        if r.chance(1, 4) {
            hosts.push((r.pick(HOSTS).to_string(), r.chance(1, 2)));
        }
        let unhide = r.chance(1, 5);
        let text = if unhide && r.chance(1, 4) { String::new() } else if unhide && r.chance(1, 5) { format!("{} ", text) } else { text };
        rules.push(Rule { hosts, unhide, text, list: r.below(nl) });
    }
    EngineCase { masks, rules, resources, host: r.pick(&["sub.example.com", "sub.example.com", "sub.example.com", "example.com", "other.org"]).to_string() }
}

fn coq_store(resources: &[Res]) -> String {
    format!("(from_resources {})", clist(resources, |x| x.coq()))
}
fn coq_injs(v: &[Req]) -> String {
    clist(v, |q| format!("({}, {})", hxs(&q.text), cn(q.mask)))
}

/// The two-list shape of finding F18, built from scratch: returns true when the crate merges.
fn f18_case() -> EngineCase {
    let body = format!("function p_f(a) {{ {} }}", marker("p.js"));
    EngineCase {
        masks: vec![1, 2],
        rules: vec![
            Rule { hosts: vec![("example.com".into(), false)], unhide: false, text: "p".into(), list: 0 },
            Rule { hosts: vec![("example.com".into(), false)], unhide: false, text: "p".into(), list: 1 },
        ],
        resources: vec![Res { name: "p.js".into(), aliases: vec![], mime: Some("application/javascript"), content: b64(body.as_bytes()), dec: Dec::Text(body), deps: vec![], perm: 3 }],
        host: "example.com".into(),
    }
}

// ------------------------------------------------------------------------------ storage level
struct StorageCase {
    resources: Vec<Res>,
    injs: Vec<Req>,
}
impl StorageCase {
    fn json(&self, script: &str) -> Value {
        json!({"kind": "storage", "resources": self.resources.iter().map(|r| r.json()).collect::<Vec<_>>(),
               "injections": self.injs.iter().map(|q| json!([q.text, q.mask])).collect::<Vec<_>>(), "script": script})
    }
    fn from_json(v: &Value) -> StorageCase {
        StorageCase {
            resources: v["resources"].as_array().unwrap().iter().map(Res::from_json).collect(),
            injs: v["injections"].as_array().unwrap().iter().map(|q| Req { text: q[0].as_str().unwrap().into(), mask: q[1].as_u64().unwrap() as u8 }).collect(),
        }
    }
}
fn run_storage(c: &StorageCase) -> Result<String, String> {
    let resources: Vec<Resource> = c.resources.iter().map(|x| x.to_resource()).collect();
    let injs = c.injs.clone();
    catch(move || {
        let st = ResourceStorage::from_resources(resources);
        st.get_scriptlet_resources(injs.iter().map(|q| (q.text.as_str(), PermissionMask::from_bits(q.mask))))
    })
}
fn gen_storage_case(r: &mut Rng) -> StorageCase {
    let resources = gen_resources(r);
    let n = r.range(1, 4);
    let sn = store_names(&resources);
    let sn: Vec<&str> = sn.iter().map(|s| s.as_str()).collect();
    let injs = (0..n).map(|_| Req { text: { let any = r.chance(1, 8); gen_arg_list(r, if any { SCRIPTLET_NAMES } else { &sn }) }, mask: r.pick(&[0u8, 1, 2, 3, 0xff, 0, 3, 0x83, 0xff]) }).collect();
    StorageCase { resources, injs }
}
/// The F17 shape (dependency cycle through an alias) and friends: must terminate.
fn cyclic_cases() -> Vec<StorageCase> {
    let f = |name: &str, aliases: &[&str], deps: &[&str], perm: u8| {
        let body = format!("function {}_f(a) {{ {} }}", name.replace('.', "_"), marker(name));
        Res { name: name.into(), aliases: aliases.iter().map(|s| s.to_string()).collect(), mime: Some("application/javascript"), content: b64(body.as_bytes()), dec: Dec::Text(body), deps: deps.iter().map(|s| s.to_string()).collect(), perm }
    };
    vec![
        StorageCase { resources: vec![f("a.js", &["aa"], &["aa"], 0)], injs: vec![Req { text: "a".into(), mask: 0 }] },
        StorageCase { resources: vec![f("a.js", &["aa"], &["b.js"], 0), f("b.js", &["bb"], &["aa", "bb"], 0)], injs: vec![Req { text: "a, x".into(), mask: 0 }, Req { text: "bb".into(), mask: 0 }] },
        StorageCase { resources: vec![f("a.js", &[], &["a.js"], 1)], injs: vec![Req { text: "a".into(), mask: 1 }, Req { text: "a".into(), mask: 0 }] },
        StorageCase { resources: vec![f("a.js", &[], &["x.js"], 0), f("x.js", &[], &["y.js"], 0), f("y.js", &[], &[], 1), f("b.js", &[], &["x.js"], 0)],
                      injs: vec![Req { text: "a".into(), mask: 1 }, Req { text: "b".into(), mask: 0 }] },
        StorageCase { resources: vec![f("a.js", &[], &["x.js"], 0), f("x.js", &[], &["y.js"], 0), f("y.js", &[], &[], 1), f("b.js", &[], &["x.js"], 0)],
                      injs: vec![Req { text: "b".into(), mask: 0 }, Req { text: "a".into(), mask: 1 }] },
    ]
}

// ------------------------------------------------------------------------------ main
fn report(sm: &mut Summary, vs: Vec<Verdict>, replay: Value) {
    for v in vs {
        sm.failure(v.class, &v.what, replay.clone());
    }
}

fn probe_graphs(seed: u64, n: usize) {
    // child process: run the graph cases only; print the index before each so that the parent
    // can tell which case killed the process (a stack overflow is not a catchable panic)
    use std::io::Write;
    let mut r = Rng::new(seed ^ 0x6772_6170_68);
    let mut all = cyclic_cases();
    for _ in 0..n {
        all.push(gen_storage_case(&mut r));
    }
    for (i, c) in all.iter().enumerate() {
        println!("{}", i);
        std::io::stdout().flush().ok();
        let _ = run_storage(c);
    }
    println!("done");
}

fn main() {
    let a = args();
    let argv: Vec<String> = std::env::args().collect();
    if let Some(p) = argv.iter().position(|x| x == "--probe-graphs") {
        probe_graphs(a.seed, argv[p + 1].parse().unwrap());
        return;
    }
    if let Some(p) = &a.replay {
        let v: Value = serde_json::from_str(&std::fs::read_to_string(p).unwrap()).unwrap();
        let rp = &v["replay"];
        let mut bad = false;
        match rp["kind"].as_str().unwrap_or("") {
            "stringify" => {
                let s = rp["arg"].as_str().unwrap();
                let q = hooks::stringify_arg(true, s);
                let u = hooks::stringify_arg(false, s);
                let ok = js_literal(q.as_bytes()) == Some((s.as_bytes().to_vec(), q.len()))
                    && js_literal(format!("\"{}\"", u).as_bytes()) == Some((s.as_bytes().to_vec(), u.len() + 2));
                println!("arg={:?} quoted={:?} unquoted={:?} faithful={}", s, q, u, ok);
                bad = !ok;
            }
            "template_by_construction" => {
                let t = rp["template"].as_str().unwrap().to_string();
                let args: Vec<String> = rp["args"].as_array().unwrap().iter().map(|x| x.as_str().unwrap().to_string()).collect();
                let got = hooks::patch_template_scriptlet(t.clone(), args.clone());
                println!("template {:?} args {:?} -> {:?}", t, args, got);
                bad = got != rp["want"].as_str().unwrap();
            }
            "args_by_construction" => {
                let text = rp["text"].as_str().unwrap();
                let vals: Vec<String> = rp["values"].as_array().unwrap().iter().map(|x| x.as_str().unwrap().to_string()).collect();
                let got = hooks::parse_scriptlet_args(text);
                let want: Vec<String> = std::iter::once("S0".to_string()).chain(vals.iter().cloned()).collect();
                println!("+js({}) stands for {:?}; parser gives {:?}", text, vals, got);
                bad = got.as_ref() != Some(&want);
            }
            "engine" => {
                let c = EngineCase::from_json(rp);
                match run_engine(&c) {
                    Ok(run) => {
                        println!("injected_script:\n{}", run.script);
                        for v in engine_oracle(&run) {
                            println!("oracle: class={:?} {}", v.class, v.what);
                            bad = true;
                        }
                    }
                    Err(e) => {
                        println!("panic: {}", e);
                        bad = true;
                    }
                }
            }
            "storage" => {
                let c = StorageCase::from_json(rp);
                match run_storage(&c) {
                    Ok(script) => {
                        println!("script:\n{}", script);
                        let rf = Ref { res: accepted_resources(&c.resources) };
                        for v in oracle_script(&rf, &script, &c.injs, &[], false) {
                            println!("oracle: class={:?} {}", v.class, v.what);
                            bad = true;
                        }
                    }
                    Err(e) => {
                        println!("panic: {}", e);
                        bad = true;
                    }
                }
            }
            "redirect" => {
                let res: Vec<Res> = rp["resources"].as_array().unwrap().iter().map(Res::from_json).collect();
                let name = rp["name"].as_str().unwrap();
                let got = redirect_via_engine(&res, name);
                let perm = Ref { res: accepted_resources(&res) }.lookup(name).map(|x| x.perm);
                println!("redirect={:?} resource permission={:?}", got, perm);
                bad = got.is_some() && perm.map(|p| p != 0).unwrap_or(false);
            }
            "injectable" => {
                let (x, f) = (rp["resource"].as_u64().unwrap() as u8, rp["filter"].as_u64().unwrap() as u8);
                let got = PermissionMask::from_bits(x).is_injectable_by(PermissionMask::from_bits(f));
                println!("is_injectable_by({:#010b}, {:#010b}) = {} ; subset = {}", x, f, got, subset(x, f));
                bad = got != subset(x, f);
            }
            k => println!("unknown replay kind {:?}", k),
        }
        if bad {
            println!("VIOLATION property=C18 replay={}", p.display());
            std::process::exit(1);
        }
        return;
    }

    let mut r = Rng::new(a.seed);
    let mut cs = Cases::new(&a.out, "Generated C18_Model");
    let mut sm = Summary::default();
    sm.rule = "hook cases: generated strings over an atom vocabulary (quotes, backslashes, every control character, DEL, U+0085/00A0/1680/2000-200A/2028/2029/205F/3000, astral, '$' sequences, '{{n}}', try/catch look-alikes) plus every single scalar value < 0x100; parser cases: soups of separators, quotes (3 kinds), escapes and Unicode whitespace; storage cases: 1-7 resources (function style, template style, anonymous function, corrupt base64, non-UTF-8, 12 MIME kinds, aliases colliding with names, dependencies incl. cycles, aliases and missing ones, permissions from 12 masks) x 1-4 ordered injections; engine cases: the same stores x 1-3 lists with different permissions x 1-5 +js rules / exceptions / blanket exceptions / negated hosts over 3 hosts. non-trivial = the string needs escaping or is non-ASCII (stringify), an argument list with a quote, escape or several arguments (parser), a non-empty script (storage/engine), a resource that exists (redirect), any pair (permission).".into();
    let k = a.scale;

    // ---- 1. stringify_arg (hook) + literal oracle
    let mut strs: Vec<String> = vec![];
    for v in 0..0x100u32 {
        strs.push(char::from_u32(v).unwrap().to_string());
    }
    for at in ATOMS {
        strs.push(at.to_string());
    }
    strs.push("x".repeat(3000) + "\"" + &"é\n".repeat(200));
    strs.push(String::new());
    for _ in 0..500 * k {
        strs.push(gen_string(&mut r, 0, 12));
    }
    for s in &strs {
        let q = hooks::stringify_arg(true, s);
        let u = hooks::stringify_arg(false, s);
        sm.oracle_evaluations += 2;
        let okq = js_literal(q.as_bytes()) == Some((s.as_bytes().to_vec(), q.len()));
        let oku = js_literal(format!("\"{}\"", u).as_bytes()) == Some((s.as_bytes().to_vec(), u.len() + 2));
        if !okq || !oku {
            sm.failure(None, &format!("stringify_arg({:?}) = {:?} / {:?} does not parse back to the argument as a JS string literal", s, q, u), json!({"kind": "stringify", "arg": s}));
        }
        let nt = s.bytes().any(|b| b < 0x20 || b == b'"' || b == b'\\' || b >= 0x80);
        cs.stat(if nt { "stringify_needs_escape_or_non_ascii" } else { "stringify_plain" });
        cs.case(format!("str_eqb (stringify_arg true {}) {} && str_eqb (stringify_arg false {}) {}", hxs(s), hxs(&q), hxs(s), hxs(&u)),
                json!({"kind": "stringify", "arg": s, "quoted": q, "unquoted": u}), nt);
    }

    // ---- 2. parser hooks
    for i in 0..700 * k {
        let s = if i % 3 == 0 { gen_arg_list(&mut r, SCRIPTLET_NAMES) } else { gen_parser_text(&mut r) };
        let got = hooks::parse_scriptlet_args(&s);
        cs.stat(if got.is_some() { "parse_ok" } else { "parse_malformed" });
        let nt = s.contains(|c| "\"'`\\".contains(c)) || got.as_ref().map(|v| v.len() > 1).unwrap_or(false);
        cs.case(format!("ostrs_eqb (parse_scriptlet_args {}) {}", hxs(&s), copt(&got, |v| cstrs(v))),
                json!({"kind": "parse_scriptlet_args", "text": s, "impl": got}), nt);
        // every parsed argument survives stringify -> literal
        if let Some(v) = &got {
            for x in v {
                sm.oracle_evaluations += 1;
                let q = hooks::stringify_arg(true, x);
                if js_literal(q.as_bytes()) != Some((x.as_bytes().to_vec(), q.len())) {
                    sm.failure(None, &format!("parsed argument {:?} -> {:?} is not a faithful literal", x, q), json!({"kind": "stringify", "arg": x}));
                }
            }
        }
    }
    // arguments spelled BY CONSTRUCTION from the value they stand for: an unquoted spelling escapes
    // each comma, a quoted spelling escapes its own quote character; every other byte (other backslash
    // sequences of a regex included) is literal.  The parser must give the value back, and its literal
    // must parse back to it.
    for _ in 0..500 * k {
        const VA: &[&str] = &["a", "foo", ",", "\\d+", "\\.", "\\w", "/", " ", "'", "\"", "`", "é", "b c", "$1", "{", "}", "(", ")", "\\/", "=", "x"];
        let nargs = r.range(1, 3);
        let mut vals: Vec<String> = vec![];
        let mut spelled: Vec<String> = vec![];
        for _ in 0..nargs {
            let mut v = String::new();
            for _ in 0..r.range(1, 5) {
                v.push_str(r.pick(VA));
            }
            let v = v.trim().to_string();
            // keep the value unambiguous: no backslash directly before a comma / quote / the end
            let b = v.as_bytes();
            let ambiguous = v.is_empty() || b[b.len() - 1] == b'\\' || (0..b.len().saturating_sub(1)).any(|i| b[i] == b'\\' && matches!(b[i + 1], b',' | b'"' | b'\'' | b'`' | b'\\'));
            if ambiguous {
                continue;
            }
            // (a quoted spelling is only used for values without that quote character: how an escaped
            // quote inside a quoted argument is read is not fixed by the property; the crate keeps the
            // backslash, uBO drops it)
            let sp = match r.below(4) {
                0 if !v.contains('"') => format!("\"{}\"", v),
                1 if !v.contains('\'') => format!("'{}'", v),
                2 if !v.contains('`') => format!("`{}`", v),
                _ => {
                    if v.starts_with(|c| c == '"' || c == '\'' || c == '`') { continue }
                    v.replace(',', "\\,")
                }
            };
            vals.push(v);
            spelled.push(sp);
        }
        if vals.is_empty() {
            continue;
        }
        // blanks around the separating commas (also between a closing quote and the comma)
        let mut text = String::from("S0");
        for sp in &spelled {
            text.push_str(r.pick(&[", ", ",", " , ", " ,", "  ,  ", ",\t"]));
            text.push_str(sp);
        }
        // (no blank after the LAST argument: after a closing quote the crate then reports the whole list
        // as malformed — stricter than uBO, but a rejected rule passes no argument, so the property is
        // not concerned)
        sm.oracle_evaluations += 1;
        cs.stat("args_by_construction");
        if vals.iter().zip(spelled.iter()).any(|(v, sp)| sp.contains("\\,") && v.replace("\\,", "").contains('\\')) { cs.stat("args_by_construction_escaped_comma_and_backslash_sequence") }
        let got = hooks::parse_scriptlet_args(&text);
        let want: Vec<String> = std::iter::once("S0".to_string()).chain(vals.iter().cloned()).collect();
        let lit_ok = got.as_ref().map(|g| g.iter().skip(1).zip(vals.iter()).all(|(x, v)| { let q = hooks::stringify_arg(true, x); js_literal(q.as_bytes()) == Some((v.as_bytes().to_vec(), q.len())) })).unwrap_or(false);
        if got.as_ref() != Some(&want) || !lit_ok {
            sm.failure(None, &format!("+js({}) stands for the arguments {:?}; the parser gives {:?} (literal parses back: {})", text, vals, got, lit_ok), json!({"kind": "args_by_construction", "text": text, "values": vals}));
        }
    }
    for _ in 0..250 * k {
        let s = gen_parser_text(&mut r);
        let sep = r.pick(&[',', '"', '\'', '`']);
        let (i, needs) = hooks::index_next_unescaped_separator(&s, sep);
        cs.case(format!("inus_eqb (index_next_unescaped_separator {} {}) ({}, {})", hxs(&s), cn(sep as u32), copt(&i, |n| cnat(*n)), cbool(needs)),
                json!({"kind": "index_next_unescaped_separator", "text": s, "sep": sep.to_string(), "impl": [i, needs]}), s.contains(sep));
        let n = hooks::normalize_arg(&s, sep);
        cs.case(format!("str_eqb (normalize_arg {} {}) {}", hxs(&s), cn(sep as u32), hxs(&n)),
                json!({"kind": "normalize_arg", "text": s, "sep": sep.to_string(), "impl": n}), s.contains('\\'));
    }
    for _ in 0..200 * k {
        const TP: &[&str] = &["{{1}}", "{{2}}", "{{3}}", "{{9}}", "{{10}}", "{{0}}", "{{", "}}", "x", "'", " ", "{{1}", "$1", "é"];
        let mut t = String::new();
        for _ in 0..r.range(0, 7) {
            t.push_str(r.pick(TP));
        }
        let n = if r.chance(1, 8) { r.range(9, 11) } else { r.range(0, 3) };
        let args: Vec<String> = (0..n).map(|_| { let s = gen_string(&mut r, 0, 2); if r.chance(1, 3) { format!("{}{}", s, r.pick(TP)) } else { s } }).collect();
        let got = hooks::patch_template_scriptlet(t.clone(), args.clone());
        cs.case(format!("str_eqb (patch_template_scriptlet {} {}) {}", hxs(&t), cstrs(&args), hxs(&got)),
                json!({"kind": "patch_template_scriptlet", "template": t, "args": args, "impl": got}), t.contains("{{") && !args.is_empty());
    }
    // templates BY CONSTRUCTION: text around placeholders, arguments free of braces: the argument text
    // must appear verbatim where its placeholder stood ('$' sequences included: `$a$b`, `${x}${y}`, `$$1`)
    for _ in 0..300 * k {
        const TX: &[&str] = &["x", "'", " ", "a=", ";", "(", ")", "é", "\n", "$"];
        const AV: &[&str] = &["$", "$a", "$1", "$$", "${x}", "a", "b c", "1", "$b$", "é", "'", "\\", "$0"];
        let txt = |r: &mut Rng| -> String { (0..r.range(0, 3)).map(|_| r.pick(TX).to_string()).collect() };
        let argv = |r: &mut Rng| -> String { (0..r.range(1, 4)).map(|_| r.pick(AV).to_string()).collect() };
        let (p0, m0, s0) = (txt(&mut r), txt(&mut r), txt(&mut r));
        let (v1, v2) = (argv(&mut r), argv(&mut r));
        let two = r.chance(1, 2);
        let template = if two { format!("{}{{{{1}}}}{}{{{{2}}}}{}", p0, m0, s0) } else { format!("{}{{{{1}}}}{}", p0, s0) };
        let want = if two { format!("{}{}{}{}{}", p0, v1, m0, v2, s0) } else { format!("{}{}{}", p0, v1, s0) };
        let args = if two { vec![v1.clone(), v2.clone()] } else { vec![v1.clone()] };
        let got = hooks::patch_template_scriptlet(template.clone(), args.clone());
        sm.oracle_evaluations += 1;
        cs.stat("template_by_construction");
        if args.iter().any(|a| a.matches('$').count() >= 2) { cs.stat("template_by_construction_two_dollars") }
        if got != want {
            sm.failure(None, &format!("template {:?} with arguments {:?} gives {:?}; the argument text must stand where the placeholder stood: {:?}", template, args, got, want),
                json!({"kind": "template_by_construction", "template": template, "args": args, "want": want}));
        }
    }
    for n in SCRIPTLET_NAMES.iter().chain(["", ".js", "js", "a.JS", "é.js"].iter()) {
        let got = hooks::with_js_extension(n);
        cs.case(format!("str_eqb (with_js_extension {}) {}", hxs(n), hxs(&got)), json!({"kind": "with_js_extension", "name": n, "impl": got}), true);
    }

    // ---- 3. is_injectable_by: exhaustive against the subset reference; a sample as Coq cases
    for x in 0..=255u8 {
        for f in 0..=255u8 {
            sm.oracle_evaluations += 1;
            let got = PermissionMask::from_bits(x).is_injectable_by(PermissionMask::from_bits(f));
            if got != subset(x, f) {
                sm.failure(None, &format!("is_injectable_by({:#010b}, {:#010b}) = {} but subset = {}", x, f, got, subset(x, f)), json!({"kind": "injectable", "resource": x, "filter": f}));
            }
        }
    }
    for _ in 0..300 * k {
        let (x, f) = (r.below(256) as u8, if r.chance(1, 2) { r.below(256) as u8 } else { r.pick(PERMS) });
        let x = if r.chance(1, 3) { x & f } else { x };
        let got = PermissionMask::from_bits(x).is_injectable_by(PermissionMask::from_bits(f));
        cs.stat(if got { "injectable" } else { "not_injectable" });
        cs.case(format!("Bool.eqb (is_injectable_by {} {}) {}", cn(x), cn(f), cbool(got)), json!({"kind": "is_injectable_by", "resource": x, "filter": f, "impl": got}), true);
    }

    // ---- 4. storage level (ordered injections): graph cases first, in a child process
    let n_graph = 400 * k;
    let mut graph_ok = true;
    match std::process::Command::new(std::env::current_exe().unwrap()).args(["--probe-graphs", &n_graph.to_string(), "--seed", &a.seed.to_string(), "--out", &a.out.join("probe").to_string_lossy()]).output() {
        Ok(o) => {
            let so = String::from_utf8_lossy(&o.stdout).to_string();
            if !so.trim_end().ends_with("done") {
                graph_ok = false;
                let last: usize = so.lines().last().and_then(|l| l.parse().ok()).unwrap_or(0);
                let mut r2 = Rng::new(a.seed ^ 0x6772_6170_68);
                let mut all = cyclic_cases();
                for _ in 0..n_graph {
                    all.push(gen_storage_case(&mut r2));
                }
                sm.failure(None, &format!("dependency resolution aborted the process ({}): unbounded recursion on a dependency graph", o.status), all[last.min(all.len() - 1)].json(""));
            }
        }
        Err(e) => {
            sm.extra.insert("probe_error".into(), json!(e.to_string()));
        }
    }
    std::fs::remove_dir_all(a.out.join("probe")).ok();
    sm.extra.insert("graph_probe_child_ok".into(), json!(graph_ok));
    if graph_ok {
        let mut r2 = Rng::new(a.seed ^ 0x6772_6170_68);
        let mut all = cyclic_cases();
        for _ in 0..n_graph {
            all.push(gen_storage_case(&mut r2));
        }
        for c in &all {
            crash_guard(&a.out, "ResourceStorage::get_scriptlet_resources on this store and these injections", &c.json(""));
            match run_storage(c) {
                Ok(script) => {
                    let rf = Ref { res: accepted_resources(&c.resources) };
                    sm.oracle_evaluations += 1;
                    report(&mut sm, oracle_script(&rf, &script, &c.injs, &[], false), c.json(&script));
                    cs.stat(if script.is_empty() { "storage_empty_script" } else { "storage_script" });
                    if script.contains("try {") { cs.stat("storage_invocation") }
                    cs.case(format!("str_eqb (get_scriptlet_resources {} {}) {}", coq_store(&c.resources), coq_injs(&c.injs), hxs(&script)), c.json(&script), !script.is_empty());
                }
                Err(e) => sm.failure(None, &format!("get_scriptlet_resources panicked: {}", e), c.json("")),
            }
        }
    }

    // ---- 5. redirects
    for _ in 0..150 * k {
        let res = gen_resources(&mut r);
        let name = if r.chance(1, 5) { r.pick(ALIASES).to_string() } else { res[r.below(res.len())].name.clone() };
        crash_guard(&a.out, "get_redirect_resource / redirect through the engine", &json!({"kind": "redirect", "resources": res.iter().map(|x| x.json()).collect::<Vec<_>>(), "name": name}));
        let st = ResourceStorage::from_resources(res.iter().map(|x| x.to_resource()));
        let got = st.get_redirect_resource(&name);
        let rf = Ref { res: accepted_resources(&res) };
        let target = rf.lookup(&name);
        cs.stat(if got.is_some() { "redirect_served" } else { "redirect_refused" });
        cs.case(format!("ostr_eqb (get_redirect_resource {} {}) {}", coq_store(&res), hxs(&name), copt(&got, |s| hxs(s))),
                json!({"kind": "redirect", "resources": res.iter().map(|x| x.json()).collect::<Vec<_>>(), "name": name, "impl": got}), target.is_some());
        // oracle through the engine: a permissioned resource is never served
        sm.oracle_evaluations += 1;
        let via = redirect_via_engine(&res, &name);
        if let Some(t) = target {
            if t.perm != 0 && (via.is_some() || got.is_some()) {
                sm.failure(None, &format!("resource {} requires permission {:#010b} but is served as a redirect", t.name, t.perm), json!({"kind": "redirect", "resources": res.iter().map(|x| x.json()).collect::<Vec<_>>(), "name": name}));
            }
            if t.perm != 0 { cs.stat("redirect_permissioned_target") }
        }
        if via != got && !name.contains(':') {
            sm.failure(None, &format!("BlockerResult.redirect {:?} differs from get_redirect_resource {:?}", via, got), json!({"kind": "redirect", "resources": res.iter().map(|x| x.json()).collect::<Vec<_>>(), "name": name}));
        }
    }

    // ---- 6. engine level
    let mut ecases = vec![f18_case()];
    for _ in 0..350 * k {
        ecases.push(gen_engine_case(&mut r));
    }
    for c in &ecases {
        // a dependency cycle that the resolver does not cut overflows the stack (not a catchable
        // panic): record the input first, ./check reports it if the process dies here
        crash_guard(&a.out, "Engine::url_cosmetic_resources on this store and these rules", &c.json(&vec![true; c.rules.len()], ""));
        match run_engine(c) {
            Ok(run) => {
                sm.oracle_evaluations += 1;
                let desc = c.json(&run.loaded, &run.script);
                report(&mut sm, engine_oracle(&run), desc.clone());
                let merged: BTreeSet<&str> = run.injs.iter().map(|q| q.text.as_str()).collect();
                if merged.len() > 5 {
                    cs.stat("engine_skipped_too_many_injections");
                    continue;
                }
                cs.stat(if run.script.is_empty() { "engine_empty_script" } else { "engine_script" });
                if !run.excs.is_empty() { cs.stat("engine_with_exception") }
                if run.excs.iter().any(|e| e.is_empty()) { cs.stat("engine_blanket_exception") }
                cs.case(format!("host_script_ok {} {} {} {}", coq_store(&c.resources), coq_injs(&run.injs), cstrs(&run.excs), hxs(&run.script)), desc, !run.script.is_empty() || !run.excs.is_empty());
            }
            Err(e) => sm.failure(None, &format!("url_cosmetic_resources panicked: {}", e), c.json(&vec![false; c.rules.len()], "")),
        }
    }
    crash_guard_clear(&a.out);
    cs.finish();
    sm.write(&a.out, &cs);
}

fn redirect_via_engine(res: &[Res], name: &str) -> Option<String> {
    let rule = format!("||redir.test^$script,redirect={}", name);
    let mut engine = Engine::from_rules([rule], Default::default());
    // (an earlier call with every resource unprivileged must leave no trace)
    engine.use_resources(res.iter().map(|x| { let mut y = x.to_resource(); y.permission = PermissionMask::from_bits(0); y }));
    engine.use_resources(res.iter().map(|x| x.to_resource()));
    let req = Request::new("https://redir.test/a.js", "https://redir.test/", "script").ok()?;
    engine.check_network_request(&req).redirect
}
