//! C14 — removeparam rewrites remove exactly the named parameters and nothing else.
//! Correspondence: Engine::check_network_request(..).rewritten_url vs the Gallina
//! `rewritten_url` (C14_Model.v) on the same (names, url).  Oracle: an independent Rust
//! re-statement of the L0 split/filter/join description.
use adblock::filters::network::{NetworkFilter, NetworkMatchable};
use adblock::regex_manager::RegexManager;
use adblock::request::Request;
use adblock::Engine;
use implrun::*;
use serde_json::json;

const KEYS: &[&str] = &["utm", "utm_source", "fbclid", "id", "a", "b", "ref", "UTM", "utm ", "ut", "utmx", ""];
const VALS: &[&str] = &["1", "", "x=y", "a%20b", "é", "?", "v#", "foo", "==", "&"];

fn query(r: &mut Rng) -> String {
    let n = r.range(0, 5);
    let mut parts = vec![];
    for _ in 0..n {
        let k = r.pick(KEYS);
        match r.below(6) {
            0 => parts.push(k.to_string()),
            1 => parts.push(format!("{}=", k)),
            _ => {
                let v = r.pick(VALS);
                let v = if v == "&" { "" } else { v };
                parts.push(format!("{}={}", k, v))
            }
        }
    }
    parts.join("&")
}

fn gen_url(r: &mut Rng) -> String {
    let host = r.pick(gen::HOSTS);
    let mut s = format!("{}://{}/{}", r.pick(&["https", "http"]), host, gen::segs(r, 0, 2).replace('^', "/").replace('*', "-").replace('?', "_"));
    match r.below(10) {
        0 => {}
        1 => {
            // fragment containing a '?'
            s.push_str("#frag?");
            s.push_str(&query(r));
        }
        2 => {
            s.push('?');
            s.push_str(&query(r));
            s.push_str("#f?");
            s.push_str(&query(r));
        }
        3 => {
            s.push('?');
            s.push_str(&query(r));
            s.push('#');
        }
        4 => {
            s.push_str("??");
            s.push_str(&query(r));
        }
        _ => {
            s.push('?');
            s.push_str(&query(r));
            if r.chance(1, 4) {
                s.push_str("#frag");
            }
        }
    }
    s
}

fn gen_rules(r: &mut Rng) -> Vec<String> {
    let mut v = vec![];
    let n = r.range(1, 5);
    for _ in 0..n {
        let name = r.pick(gen::PARAMS);
        let pat = match r.below(5) {
            0 => format!("||{}^", r.pick(gen::HOSTS)),
            1 => format!("||{}/", r.pick(gen::HOSTS)),
            2 => gen::segs(r, 1, 2),
            _ => "*".to_string(),
        };
        let mut opts = vec![format!("removeparam={}", name)];
        if r.chance(1, 6) {
            opts.push((r.pick(&["xhr", "document", "subdocument", "script", "~script", "image"])).to_string());
        }
        if r.chance(1, 8) {
            opts.push(gen::domain_opt(r));
        }
        v.push(format!("{}${}", pat, opts.join(",")));
    }
    if r.chance(1, 5) {
        v.push(format!("{}$important", gen::pattern(r)));
    }
    if r.chance(1, 4) {
        v.push(gen::rule(r, false));
    }
    if r.chance(1, 6) {
        v.push(format!("@@{}", gen::pattern(r)));
    }
    v
}

/// Independent statement of the property (L0): split at the first '?' that precedes any '#'.
fn reference(names: &[String], url: &str) -> Option<String> {
    let b = url.as_bytes();
    let frag = b.iter().position(|&c| c == b'#').unwrap_or(b.len());
    let q = b[..frag].iter().position(|&c| c == b'?')?;
    let pre = &url[..q];
    let query = &url[q + 1..frag];
    let post = &url[frag..];
    let mut kept: Vec<&str> = vec![];
    let mut dropped = false;
    for p in query.split('&') {
        let gone = match p.find('=') {
            Some(e) => !p[e + 1..].is_empty() && names.iter().any(|n| n == &p[..e]),
            None => false,
        };
        if gone {
            dropped = true
        } else {
            kept.push(p)
        }
    }
    if !dropped {
        return None;
    }
    let j = kept.join("&");
    Some(if j.is_empty() { format!("{}{}", pre, post) } else { format!("{}?{}{}", pre, j, post) })
}

fn eval(rules: &[String], url: &str, src: &str, ty: &str) -> Option<(Vec<String>, bool, Option<String>, String)> {
    let req = Request::new(url, src, ty).ok()?;
    let engine = Engine::from_rules(rules.iter(), Default::default());
    let res = engine.check_network_request(&req);
    let mut names = vec![];
    for line in rules {
        if let Ok(f) = NetworkFilter::parse(line, true, Default::default()) {
            use adblock::filters::network::NetworkFilterMaskHelper;
            if f.is_removeparam() && !f.is_badfilter() {
                let mut rm = RegexManager::default();
                if f.matches(&req, &mut rm) {
                    if let Some(n) = &f.modifier_option {
                        names.push(n.clone());
                    }
                }
            }
        }
    }
    let orig = adblock::request::verif::original_url(&req).to_string();
    Some((names, res.important, res.rewritten_url, orig))
}

fn main() {
    let a = args();
    if let Some(p) = &a.replay {
        let v: serde_json::Value = serde_json::from_str(&std::fs::read_to_string(p).unwrap()).unwrap();
        let rp = &v["replay"];
        let rules: Vec<String> = rp["rules"].as_array().unwrap().iter().map(|x| x.as_str().unwrap().to_string()).collect();
        let (names, imp, got, orig) = eval(&rules, rp["url"].as_str().unwrap(), rp["source"].as_str().unwrap(), rp["type"].as_str().unwrap()).unwrap();
        let want = if imp { None } else { reference(&names, &orig) };
        println!("names={:?} important={} impl={:?} spec={:?}", names, imp, got, want);
        if got != want {
            println!("VIOLATION property=C14 replay={}", p.display());
            std::process::exit(1);
        }
        return;
    }
    let mut r = Rng::new(a.seed);
    let mut cs = Cases::new(&a.out, "C14_Model");
    let mut sm = Summary::default();
    sm.rule = "random rule lists (1-5 removeparam rules over 7 names, optional important/exception/blocking rules) x URLs whose query and fragment are drawn from a key/value grammar (empty values, key-only, '=' in values, '?' and '#' in fragments, non-ASCII); non-trivial = a parameter key equals a matching rule name (rewrite or empty-value keep)".into();
    let n = 1500 * a.scale;
    for _ in 0..n {
        let rules = gen_rules(&mut r);
        let url = gen_url(&mut r);
        // the source is never empty here: "no source + domain= rule" is the C01 finding F2, not a C14 matter
        let src = { let s = gen::source_url(&mut r); if s.is_empty() { "https://a.com/page".to_string() } else { s } };
        let ty = r.pick(&["document", "xhr", "subdocument", "script", "image", "main_frame"]);
        let Some((names, imp, got, orig)) = eval(&rules, &url, &src, ty) else { cs.stat("request_error"); continue };
        let want = if imp { None } else { reference(&names, &orig) };
        sm.oracle_evaluations += 1;
        let desc = json!({"rules": rules, "url": url, "source": src, "type": ty, "matching_names": names, "important": imp, "impl": got});
        if got != want {
            sm.failure(None, &format!("rewritten_url {:?} but the specification gives {:?}", got, want), desc.clone());
        }
        let key_hit = names.iter().any(|nm| orig.contains(&format!("{}=", nm)));
        cs.stat(if got.is_some() { "rewritten" } else if names.is_empty() { "no_matching_rule" } else { "matching_rule_no_rewrite" });
        if imp { cs.stat("important") }
        let expr = format!(
            "ostr_eqb (rewritten_url {} {} {}) {}",
            cbool(imp), cstrs(&names), hxs(&orig), copt(&got, |s| hxs(s))
        );
        cs.case(expr, desc, key_hit);
    }
    cs.finish();
    sm.write(&a.out, &cs);
}
