//! C14 — removeparam rewrites remove exactly the named parameters and nothing else.
//! Correspondence: Engine::check_network_request(..).rewritten_url vs the Gallina
//! `rewritten_url` (C14_Model.v) on the same (names, url).  Oracle: an independent Rust
//! re-statement of the L0 split/filter/join description.
use adblock::filters::network::{NetworkFilter, NetworkMatchable};
use adblock::regex_manager::RegexManager;
use adblock::request::Request;
use adblock::Engine;
use implrun::*;
use serde_json::json;

const KEYS: &[&str] = &["utm", "utm_source", "fbclid", "id", "a", "b", "ref", "UTM", "utm ", "ut", "utmx", ""];
const VALS: &[&str] = &["1", "", "x=y", "a%20b", "é", "?", "v#", "foo", "==", "&"];

thread_local! { static RULE_NAMES: std::cell::RefCell<Vec<String>> = std::cell::RefCell::new(vec![]); static RULE_BASE: std::cell::RefCell<Option<String>> = std::cell::RefCell::new(None); }
fn query(r: &mut Rng) -> String {
    let n = r.range(0, 5);
    let mut parts = vec![];
    let names: Vec<String> = RULE_NAMES.with(|n| n.borrow().clone());
    for _ in 0..n {
        // half of the keys are parameter names of rules of the list at hand
        let k: &str = if !names.is_empty() && r.chance(1, 2) { &names[r.below(names.len())] } else { r.pick(KEYS) };
        match r.below(6) {
            0 => parts.push(k.to_string()),
            1 => parts.push(format!("{}=", k)),
            _ => {
                let v = r.pick(VALS);
                let v = if v == "&" { "" } else { v };
                parts.push(format!("{}={}", k, v))
            }
        }
    }
    parts.join("&")
}

/// Spellings of scheme / authority that the URL scanner normalises (upper-case scheme or host, IDN
/// host, credentials, port, surrounding blanks, tab inside the host): the rewrite must be made on the
/// caller's string, byte for byte, not on the normalised one.
fn spelled_prefix(r: &mut Rng, host: &str) -> String {
    match r.below(12) {
        0 => format!("HTTPS://{}", host),
        1 => format!("Http://{}", host.to_uppercase()),
        2 => format!("https://{}", host.to_uppercase()),
        3 => format!("https://user:pw@{}", host),
        4 => format!("https://{}:8443", host),
        5 => format!("http://{}:80", host),
        6 => format!("https://b\u{fc}cher.{}", host),
        7 => format!(" https://{}", host),
        8 => format!("https://{}.", host),
        9 => format!("https://www.{}", host),
        _ => format!("{}://{}", r.pick(&["https", "http"]), host),
    }
}

fn gen_url(r: &mut Rng) -> String {
    let host = r.pick(gen::HOSTS);
    let pre = if r.chance(1, 3) { spelled_prefix(r, host) } else { format!("{}://{}", r.pick(&["https", "http"]), host) };
    let mut s = format!("{}/{}", pre, gen::segs(r, 0, 2).replace('^', "/").replace('*', "-").replace('?', "_"));
    // half of the URLs are built from the pattern of a rule of the list (so that patterned rules match)
    if let Some(b) = RULE_BASE.with(|b| b.borrow().clone()) {
        if r.chance(1, 2) && !b.contains('?') && !b.contains('#') {
            s = b;
        }
    }
    match r.below(10) {
        0 => {}
        1 => {
            // fragment containing a '?'
            s.push_str("#frag?");
            s.push_str(&query(r));
        }
        2 => {
            s.push('?');
            s.push_str(&query(r));
            s.push_str("#f?");
            s.push_str(&query(r));
        }
        3 => {
            s.push('?');
            s.push_str(&query(r));
            s.push('#');
        }
        4 => {
            s.push_str("??");
            s.push_str(&query(r));
        }
        _ => {
            s.push('?');
            s.push_str(&query(r));
            if r.chance(1, 4) {
                s.push_str("#frag");
            }
        }
    }
    s
}

fn gen_rules(r: &mut Rng) -> Vec<String> {
    let mut v = vec![];
    let n = r.range(1, 5);
    let shared = gen::segs(r, 1, 2);
    let sib = r.chance(1, 4);
    for _ in 0..n {
        let name = r.pick(gen::PARAMS);
        let pat = match if sib { 5 } else { r.below(7) } {
            // several rules on one pattern: same bucket, same mask, different parameter
            5 | 6 => shared.clone(),
            0 => format!("||{}^", r.pick(gen::HOSTS)),
            1 => format!("||{}/", r.pick(gen::HOSTS)),
            2 => gen::segs(r, 1, 2),
            _ => "*".to_string(),
        };
        let mut opts = vec![format!("removeparam={}", name)];
        if pat == shared {
            // no further option: equal masks
        } else if r.chance(1, 6) {
            opts.push((r.pick(&["xhr", "document", "subdocument", "script", "~script", "image"])).to_string());
        }
        if pat != shared && r.chance(1, 8) {
            opts.push(gen::domain_opt(r));
        }
        v.push(format!("{}${}", pat, opts.join(",")));
    }
    if r.chance(1, 5) {
        v.push(format!("{}$important", gen::pattern(r)));
    }
    if r.chance(1, 4) {
        v.push(gen::rule(r, false));
    }
    if r.chance(1, 6) {
        v.push(format!("@@{}", gen::pattern(r)));
    }
    v
}

/// Independent statement of the property (L0): split at the first '?' that precedes any '#'.
fn reference(names: &[String], url: &str) -> Option<String> {
    let b = url.as_bytes();
    let frag = b.iter().position(|&c| c == b'#').unwrap_or(b.len());
    let q = b[..frag].iter().position(|&c| c == b'?')?;
    let pre = &url[..q];
    let query = &url[q + 1..frag];
    let post = &url[frag..];
    let mut kept: Vec<&str> = vec![];
    let mut dropped = false;
    for p in query.split('&') {
        let gone = match p.find('=') {
            Some(e) => !p[e + 1..].is_empty() && names.iter().any(|n| n == &p[..e]),
            None => false,
        };
        if gone {
            dropped = true
        } else {
            kept.push(p)
        }
    }
    if !dropped {
        return None;
    }
    let j = kept.join("&");
    Some(if j.is_empty() { format!("{}{}", pre, post) } else { format!("{}?{}{}", pre, j, post) })
}

/// How the rules reach the matcher: 0 = Engine::from_rules (optimised), 1 = unoptimised engine,
/// 2 = Blocker::new + explicit optimize() (twice), 3 = empty Blocker + add_filter one by one + optimize().
fn run(rules: &[String], req: &Request, mode: usize) -> (bool, Option<String>) {
    use adblock::blocker::{Blocker, BlockerOptions};
    match mode {
        0 => { let r = Engine::from_rules(rules.iter(), Default::default()).check_network_request(req); (r.important, r.rewritten_url) }
        1 => { let r = Engine::from_rules_parametrised(rules.iter(), Default::default(), true, false).check_network_request(req); (r.important, r.rewritten_url) }
        _ => {
            let fs: Vec<NetworkFilter> = rules.iter().filter_map(|l| implrun::net::parse_net(l)).collect();
            let rs = adblock::resources::ResourceStorage::default();
            let mut b = if mode == 2 { Blocker::new(fs, &BlockerOptions { enable_optimizations: false }) } else {
                let mut b = Blocker::new(vec![], &BlockerOptions { enable_optimizations: false });
                for f in fs { use adblock::filters::network::NetworkFilterMaskHelper; if !f.is_badfilter() { let _ = b.add_filter(f); } }
                b
            };
            b.optimize();
            if mode == 2 { b.optimize(); }
            let r = b.check(req, &rs);
            (r.important, r.rewritten_url)
        }
    }
}

fn eval(rules: &[String], url: &str, src: &str, ty: &str, mode: usize) -> Option<(Vec<String>, bool, Option<String>, String)> {
    let req = Request::new(url, src, ty).ok()?;
    let (important, rewritten) = run(rules, &req, mode);
    struct Res { important: bool, rewritten_url: Option<String> }
    let res = Res { important, rewritten_url: rewritten };
    let mut names = vec![];
    for line in rules {
        if let Ok(f) = NetworkFilter::parse(line, true, Default::default()) {
            use adblock::filters::network::NetworkFilterMaskHelper;
            if f.is_removeparam() && !f.is_badfilter() {
                let mut rm = RegexManager::default();
                if f.matches(&req, &mut rm) {
                    if let Some(n) = &f.modifier_option {
                        names.push(n.clone());
                    }
                }
            }
        }
    }
    let orig = adblock::request::verif::original_url(&req).to_string();
    Some((names, res.important, res.rewritten_url, orig))
}

fn main() {
    let a = args();
    if let Some(p) = &a.replay {
        let v: serde_json::Value = serde_json::from_str(&std::fs::read_to_string(p).unwrap()).unwrap();
        let rp = &v["replay"];
        let rules: Vec<String> = rp["rules"].as_array().unwrap().iter().map(|x| x.as_str().unwrap().to_string()).collect();
        let url = rp["url"].as_str().unwrap();
        let (names, imp, got, _orig) = eval(&rules, url, rp["source"].as_str().unwrap(), rp["type"].as_str().unwrap(), rp["mode"].as_u64().unwrap_or(0) as usize).unwrap();
        let want = if imp { None } else { reference(&names, url) };
        println!("names={:?} important={} impl={:?} spec={:?}", names, imp, got, want);
        if got != want {
            println!("VIOLATION property=C14 replay={}", p.display());
            std::process::exit(1);
        }
        return;
    }
    let mut r = Rng::new(a.seed);
    let mut cs = Cases::new(&a.out, "C14_Model");
    let mut sm = Summary::default();
    sm.rule = "random rule lists (1-5 removeparam rules over 7 names, optional important/exception/blocking rules) x URLs whose query and fragment are drawn from a key/value grammar (empty values, key-only, '=' in values, '?' and '#' in fragments, non-ASCII); non-trivial = a parameter key equals a matching rule name (rewrite or empty-value keep)".into();
    let n = 2400 * a.scale;
    let mut rules: Vec<String> = vec![];
    for it in 0..n {
        // three URLs per rule list
        if it % 3 == 0 { rules = gen_rules(&mut r); }
        RULE_NAMES.with(|n| *n.borrow_mut() = rules.iter().filter_map(|l| l.split("removeparam=").nth(1)).map(|x| x.split(',').next().unwrap_or("").to_string()).collect());
        { let k = r.below(rules.len()); let b = gen::url_for(&mut r, &rules[k]); RULE_BASE.with(|x| *x.borrow_mut() = Some(b)); }
        let url = gen_url(&mut r);
        // the source is never empty here: "no source + domain= rule" is the C01 finding F2, not a C14 matter
        let src = { let s = gen::source_url(&mut r); if s.is_empty() { "https://a.com/page".to_string() } else { s } };
        let ty = r.pick(&["document", "xhr", "subdocument", "script", "image", "main_frame"]);
        let mode = r.below(4);
        // mode 3 cannot load $badfilter rules (add_filter rejects them) and F13-style duplicates: keep it to lists without them
        let mode = if mode == 3 && rules.iter().any(|l| l.contains("badfilter")) { 2 } else { mode };
        let Some((names, imp, got, _hook_orig)) = eval(&rules, &url, &src, ty, mode) else { cs.stat("request_error"); continue };
        // the specification speaks about the URL the caller passed, not about any internal copy
        let orig = url.clone();
        let want = if imp { None } else { reference(&names, &orig) };
        sm.oracle_evaluations += 1;
        cs.stat(["mode_engine_optimized", "mode_engine_plain", "mode_blocker_optimize_twice", "mode_add_filter_then_optimize"][mode]);
        if url != url.to_ascii_lowercase() || !url.is_ascii() || url.starts_with(' ') || url.contains('@') { cs.stat("url_spelling_not_normal_form"); }
        let desc = json!({"rules": rules, "url": url, "source": src, "type": ty, "mode": mode, "matching_names": names, "important": imp, "impl": got});
        if got != want {
            sm.failure(None, &format!("rewritten_url {:?} but the specification gives {:?}", got, want), desc.clone());
        }
        let key_hit = names.iter().any(|nm| orig.contains(&format!("{}=", nm)));
        cs.stat(if got.is_some() { "rewritten" } else if names.is_empty() { "no_matching_rule" } else { "matching_rule_no_rewrite" });
        if imp { cs.stat("important") }
        let expr = format!(
            "ostr_eqb (rewritten_url {} {} {}) {}",
            cbool(imp), cstrs(&names), hxs(&orig), copt(&got, |s| hxs(s))
        );
        cs.case(expr, desc, key_hit);
    }
    cs.finish();
    sm.write(&a.out, &cs);
}
