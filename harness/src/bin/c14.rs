//! C14 — removeparam rewrites remove exactly the named parameters and nothing else.
//! Correspondence: Engine::check_network_request(..).rewritten_url vs the Gallina
//! `rewritten_url` (C14_Model.v) on the same (names, url).  Oracle: an independent Rust
//! re-statement of the L0 split/filter/join description.
//! Second loop: removeparam rules with domain=d1|d2|.. (indexed once per listed domain when neither
//! pattern nor parameter name gives a token), loaded in batch and through add_filter after rules
//! that already sit in the buckets of those domains, queried from every listed domain, a host
//! below one, and unlisted hosts.
use adblock::filters::network::{NetworkFilter, NetworkMatchable};
use adblock::regex_manager::RegexManager;
use adblock::request::Request;
use adblock::Engine;
use implrun::*;
use serde_json::json;

const KEYS: &[&str] = &["utm", "utm_source", "fbclid", "id", "a", "b", "ref", "UTM", "utm ", "ut", "utmx", ""];
const VALS: &[&str] = &["1", "", "x=y", "a%20b", "é", "?", "v#", "foo", "==", "&"];

thread_local! { static RULE_NAMES: std::cell::RefCell<Vec<String>> = std::cell::RefCell::new(vec![]); static RULE_BASE: std::cell::RefCell<Option<String>> = std::cell::RefCell::new(None); }
fn query(r: &mut Rng) -> String {
    // one query in 25 has 120-140 arguments (count boundary: the tokenizer's buffer holds 128)
    let n = if r.chance(1, 25) { r.range(120, 141) } else { r.range(0, 5) };
    let mut parts = vec![];
    let names: Vec<String> = RULE_NAMES.with(|n| n.borrow().clone());
    if n >= 120 {
        // filler arguments of one letter and one digit (no index token, so the URL stays below the
        // tokenizer's cut-off), the arguments that rules name at the very end
        for i in 0..n - 3 {
            parts.push(match i % 4 { 0 => "a=1".to_string(), 1 => "b=".to_string(), 2 => "c".to_string(), _ => format!("{}={}", ["a", "b", "x"][i % 3], i % 10) });
        }
        for _ in 0..3 {
            let k: &str = if !names.is_empty() && r.chance(3, 4) { &names[r.below(names.len())] } else { r.pick(KEYS) };
            parts.push(format!("{}={}", k, r.pick(&["1", "x", "", "7"])));
        }
        return parts.join("&");
    }
    for _ in 0..n {
        // half of the keys are parameter names of rules of the list at hand
        let k: &str = if !names.is_empty() && r.chance(1, 2) { &names[r.below(names.len())] } else { r.pick(KEYS) };
        match r.below(6) {
            0 => parts.push(k.to_string()),
            1 => parts.push(format!("{}=", k)),
            _ => {
                let v = r.pick(VALS);
                let v = if v == "&" { "" } else { v };
                parts.push(format!("{}={}", k, v))
            }
        }
    }
    parts.join("&")
}

/// Spellings of scheme / authority that the URL scanner normalises (upper-case scheme or host, IDN
/// host, credentials, port, surrounding blanks, tab inside the host): the rewrite must be made on the
/// caller's string, byte for byte, not on the normalised one.
fn spelled_prefix(r: &mut Rng, host: &str) -> String {
    match r.below(12) {
        0 => format!("HTTPS://{}", host),
        1 => format!("Http://{}", host.to_uppercase()),
        2 => format!("https://{}", host.to_uppercase()),
        3 => format!("https://user:pw@{}", host),
        4 => format!("https://{}:8443", host),
        5 => format!("http://{}:80", host),
        6 => format!("https://b\u{fc}cher.{}", host),
        7 => format!(" https://{}", host),
        8 => format!("https://{}.", host),
        9 => format!("https://www.{}", host),
        _ => format!("{}://{}", r.pick(&["https", "http"]), host),
    }
}

fn gen_url(r: &mut Rng) -> String {
    let host = r.pick(gen::HOSTS);
    let pre = if r.chance(1, 3) { spelled_prefix(r, host) } else { format!("{}://{}", r.pick(&["https", "http"]), host) };
    let mut s = format!("{}/{}", pre, gen::segs(r, 0, 2).replace('^', "/").replace('*', "-").replace('?', "_"));
    // half of the URLs are built from the pattern of a rule of the list (so that patterned rules match)
    if let Some(b) = RULE_BASE.with(|b| b.borrow().clone()) {
        if r.chance(1, 2) && !b.contains('?') && !b.contains('#') {
            s = b;
        }
    }
    // a URL WITHOUT a path whose query (or fragment) holds what looks like an authority and a path:
    // `https://host?u=me@host/ads&id=5` — the host of a URL ends at the first '/', '?' or '#'
    if r.chance(1, 8) {
        let h2 = if r.chance(2, 3) { host } else { r.pick(gen::HOSTS) };
        let look = match r.below(4) {
            0 => format!("u=me@{}/{}", h2, gen::segs(r, 1, 2).replace('^', "/").replace('*', "-").replace('?', "_")),
            1 => format!("next=//{}/{}", h2, r.pick(gen::VOCAB)),
            2 => format!("r=https://{}/", h2),
            _ => format!("m=a:b@{}/", h2),
        };
        let sep = if r.chance(3, 4) { "?" } else { "#" };
        let q = query(r);
        return format!("{}{}{}{}{}", pre, sep, look, if q.is_empty() { "" } else { "&" }, q);
    }
    match r.below(10) {
        0 => {}
        1 => {
            // fragment containing a '?'
            s.push_str("#frag?");
            s.push_str(&query(r));
        }
        2 => {
            s.push('?');
            s.push_str(&query(r));
            s.push_str("#f?");
            s.push_str(&query(r));
        }
        3 => {
            s.push('?');
            s.push_str(&query(r));
            s.push('#');
        }
        4 => {
            s.push_str("??");
            s.push_str(&query(r));
        }
        _ => {
            s.push('?');
            s.push_str(&query(r));
            if r.chance(1, 4) {
                s.push_str("#frag");
            }
        }
    }
    s
}

fn gen_rules(r: &mut Rng) -> Vec<String> {
    let mut v = vec![];
    let n = r.range(1, 5);
    let shared = gen::segs(r, 1, 2);
    let sib = r.chance(1, 4);
    for _ in 0..n {
        let name = r.pick(gen::PARAMS);
        let pat = match if sib { 5 } else { r.below(7) } {
            // several rules on one pattern: same bucket, same mask, different parameter
            5 | 6 => shared.clone(),
            0 => format!("||{}^", r.pick(gen::HOSTS)),
            1 => format!("||{}/", r.pick(gen::HOSTS)),
            2 => gen::segs(r, 1, 2),
            _ => "*".to_string(),
        };
        let mut opts = vec![format!("removeparam={}", name)];
        if pat == shared {
            // no further option: equal masks
        } else if r.chance(1, 6) {
            opts.push((r.pick(&["xhr", "document", "subdocument", "script", "~script", "image"])).to_string());
        }
        if pat != shared && r.chance(1, 8) {
            opts.push(gen::domain_opt(r));
        }
        v.push(format!("{}${}", pat, opts.join(",")));
    }
    // a removeparam rule together with its $badfilter twin (the rule is then not in force), or with a
    // near twin that names another parameter (cancels nothing)
    if r.chance(1, 5) && !v.is_empty() {
        let base = v[r.below(v.len())].clone();
        if base.contains("removeparam=") {
            if r.chance(2, 3) {
                v.push(format!("{},badfilter", base));
            } else {
                let other = base.replacen("removeparam=", "removeparam=x", 1);
                v.push(format!("{},badfilter", other));
            }
        }
    }
    if r.chance(1, 5) {
        v.push(format!("{}$important", gen::pattern(r)));
    }
    if r.chance(1, 4) {
        v.push(gen::rule(r, false));
    }
    if r.chance(1, 6) {
        v.push(format!("@@{}", gen::pattern(r)));
    }
    v
}

/// Independent statement of the property (L0): split at the first '?' that precedes any '#'.
fn reference(names: &[String], url: &str) -> Option<String> {
    let b = url.as_bytes();
    let frag = b.iter().position(|&c| c == b'#').unwrap_or(b.len());
    let q = b[..frag].iter().position(|&c| c == b'?')?;
    let pre = &url[..q];
    let query = &url[q + 1..frag];
    let post = &url[frag..];
    let mut kept: Vec<&str> = vec![];
    let mut dropped = false;
    for p in query.split('&') {
        let gone = match p.find('=') {
            Some(e) => !p[e + 1..].is_empty() && names.iter().any(|n| n == &p[..e]),
            None => false,
        };
        if gone {
            dropped = true
        } else {
            kept.push(p)
        }
    }
    if !dropped {
        return None;
    }
    let j = kept.join("&");
    Some(if j.is_empty() { format!("{}{}", pre, post) } else { format!("{}?{}{}", pre, j, post) })
}

/// How the rules reach the matcher: 0 = Engine::from_rules (optimised), 1 = unoptimised engine,
/// 2 = Blocker::new + explicit optimize() (twice), 3 = empty Blocker + add_filter one by one + optimize(),
/// 4 = empty Blocker + add_filter one by one in the order of `rules` (no optimize),
/// 5 = Blocker::new on the first `batch` rules + add_filter for the rest, in the order of `rules`.
fn run(rules: &[String], req: &Request, mode: usize, batch: usize) -> (bool, Option<String>) {
    use adblock::blocker::{Blocker, BlockerOptions};
    use adblock::filters::network::NetworkFilterMaskHelper;
    // What the answer must NOT depend on: (a) queries answered before on the same engine — in every
    // other case the same URL and type are first asked from two other initiators (one unrelated, one
    // a.com); (b) the entry point — a third of the engine-mode cases go through
    // check_network_request_subset with one of the flag combinations (the rewrite does not depend on
    // whether an earlier engine matched).
    let k = req.url.len() + rules.len();
    let decoys: Vec<Request> = if k % 2 == 0 {
        ["https://decoy.invalid/", "https://a.com/"].iter().filter_map(|s| Request::new(&req.url, s, &format!("{:?}", req.request_type).to_lowercase()).ok()).collect()
    } else { vec![] };
    let ask = |e: &Engine| {
        for d in &decoys { let _ = e.check_network_request(d); }
        match k % 3 {
            0 => e.check_network_request_subset(req, true, false),
            1 if k % 2 == 1 => e.check_network_request_subset(req, false, true),
            _ => e.check_network_request(req),
        }
    };
    match mode {
        0 => { let r = ask(&Engine::from_rules(rules.iter(), Default::default())); (r.important, r.rewritten_url) }
        1 => { let r = ask(&Engine::from_rules_parametrised(rules.iter(), Default::default(), true, false)); (r.important, r.rewritten_url) }
        _ => {
            let fs: Vec<NetworkFilter> = rules.iter().filter_map(|l| implrun::net::parse_net(l)).collect();
            let rs = adblock::resources::ResourceStorage::default();
            let mut b = if mode == 2 { Blocker::new(fs, &BlockerOptions { enable_optimizations: false }) } else {
                // `batch` counts lines; every generated line of modes 4/5 parses, so it counts rules as well
                let k = if mode == 5 { batch.min(fs.len()) } else { 0 };
                let mut b = Blocker::new(fs[..k].to_vec(), &BlockerOptions { enable_optimizations: false });
                for f in fs[k..].iter().cloned() { if !f.is_badfilter() { let _ = b.add_filter(f); } }
                b
            };
            if mode == 2 || mode == 3 { b.optimize(); }
            if mode == 2 { b.optimize(); }
            for d in &decoys { let _ = b.check(d, &rs); }
            let r = b.check(req, &rs);
            (r.important, r.rewritten_url)
        }
    }
}

const MODES: [&str; 6] = ["mode_engine_optimized", "mode_engine_plain", "mode_blocker_optimize_twice", "mode_add_filter_then_optimize", "mode_add_filter_in_order", "mode_batch_prefix_then_add_filter"];

// ------------------------------------------------------------------ removeparam rules with domain=d1|d2|...
const DDOMS: &[&str] = &["a.com", "b.com", "sub.a.com", "example.com", "foo.com", "x.net", "c.org"];
/// parameter names: one-character names, `a_b` and `u-1` give no token (tokens need two characters), so a
/// pattern-less rule carrying them is indexed once per listed domain; the others are indexed by their token
const DPARAMS: &[&str] = &["a", "b", "q", "x", "a_b", "u-1", "a", "b", "id", "utm", "ref", "utm_source"];
/// patterns without a token (per-domain dispatch applies) and with one
const DPATS_NO_TOKEN: &[&str] = &["", "", "", "*", "?", "/a?", "=", "-"];
const DPATS_TOKEN: &[&str] = &["||foo.com^", "/track", "||ads.net/pixel", "/pixel?"];
const DHOSTS: &[&str] = &["foo.com", "ads.net", "example.com", "a.com"];

fn domain_list(r: &mut Rng, lo: usize, hi: usize) -> Vec<String> {
    let mut v: Vec<String> = vec![];
    let n = r.range(lo, hi);
    while v.len() < n {
        let d = r.pick(DDOMS).to_string();
        if !v.contains(&d) { v.push(d); }
    }
    v
}

/// does the line carry a domain= option naming several domains
fn has_domain_list(l: &str) -> bool {
    l.split("domain=").nth(1).map_or(false, |d| d.split(',').next().unwrap_or("").contains('|'))
}

struct DomainCase {
    /// in loading order
    rules: Vec<String>,
    /// number of leading rules that are loaded first (the occupants) when the order is occupants-first
    occupants: usize,
    /// listed domains of the multi-domain removeparam rules
    listed: Vec<Vec<String>>,
    order: &'static str,
}

fn gen_domain_case(r: &mut Rng) -> DomainCase {
    // rules that sit in the buckets of the domains before the rule under test arrives
    let mut occ: Vec<String> = vec![];
    for _ in 0..r.range(1, 4) {
        let d = domain_list(r, 1, 2).join("|");
        occ.push(match r.below(8) {
            0 => format!("$image,domain={}", d),
            1 => format!("$script,domain={}", d),
            2 | 3 => format!("$removeparam={},domain={}", r.pick(DPARAMS), d),
            4 => format!("*$removeparam={},domain={}", r.pick(DPARAMS), d),
            5 => format!("{}$removeparam={},domain={}", r.pick(DPATS_TOKEN), r.pick(DPARAMS), d),
            6 => format!("@@$image,domain={}", d),
            _ => if r.chance(1, 4) { format!("$image,important,domain={}", d) } else { format!("$removeparam={}", r.pick(DPARAMS)) },
        });
    }
    // the rules under test: removeparam + domain= with several domains
    let mut tgt: Vec<String> = vec![];
    let mut listed = vec![];
    for _ in 0..r.range(1, 3) {
        let mut ds = domain_list(r, 2, 4);
        if r.chance(1, 5) && !ds.contains(&"sub.a.com".to_string()) && ds.contains(&"a.com".to_string()) {
            ds.push("sub.a.com".into()); // a source below both: delivered from two buckets
        }
        let pat = if r.chance(2, 3) { r.pick(DPATS_NO_TOKEN) } else { r.pick(DPATS_TOKEN) };
        let mut opts = vec![format!("removeparam={}", r.pick(DPARAMS))];
        let mut dl = ds.clone();
        if r.chance(1, 8) {
            let k = r.below(dl.len());
            dl[k] = format!("~{}", dl[k]); // a negated entry: no per-domain dispatch
        }
        opts.push(format!("domain={}", dl.join("|")));
        if r.chance(1, 6) { opts.push(r.pick(&["xhr", "document", "~image", "script"]).to_string()); }
        if r.chance(1, 3) { opts.reverse(); }
        tgt.push(format!("{}${}", pat, opts.join(",")));
        listed.push(ds);
    }
    let occupants = occ.len();
    let (rules, order): (Vec<String>, &'static str) = match r.below(4) {
        0 | 1 => (occ.into_iter().chain(tgt).collect(), "order_occupants_first"),
        2 => (tgt.into_iter().chain(occ).collect(), "order_multi_domain_rules_first"),
        _ => {
            let mut v: Vec<String> = occ.into_iter().chain(tgt).collect();
            for i in (1..v.len()).rev() { let j = r.below(i + 1); v.swap(i, j); }
            (v, "order_shuffled")
        }
    };
    DomainCase { rules, occupants, listed, order }
}

fn gen_domain_url(r: &mut Rng) -> String {
    let mut s = format!("{}://{}/{}", r.pick(&["https", "https", "http"]), r.pick(DHOSTS), r.pick(&["", "a", "track", "pixel", "x-y/a", "track/a"]));
    match r.below(10) {
        0 => { s.push_str("#frag?"); s.push_str(&dquery(r)); }
        1 => {}
        _ => { s.push('?'); s.push_str(&dquery(r)); if r.chance(1, 5) { s.push_str("#f"); } }
    }
    s
}

/// 1-4 parameters, three quarters of the keys are parameter names of the rules at hand, most values non-empty
fn dquery(r: &mut Rng) -> String {
    let names: Vec<String> = RULE_NAMES.with(|n| n.borrow().clone());
    let mut parts = vec![];
    for _ in 0..r.range(1, 4) {
        let k: &str = if !names.is_empty() && r.chance(3, 4) { &names[r.below(names.len())] } else { r.pick(KEYS) };
        match r.below(8) {
            0 => parts.push(k.to_string()),
            1 => parts.push(format!("{}=", k)),
            _ => { let v = r.pick(VALS); parts.push(format!("{}={}", k, if v == "&" { "1" } else { v })) }
        }
    }
    parts.join("&")
}

thread_local! { static TEXT_MISMATCH: std::cell::RefCell<Vec<String>> = std::cell::RefCell::new(vec![]); static TEXT_COUNTS: std::cell::Cell<(u64, u64, u64)> = std::cell::Cell::new((0, 0, 0)); }

/// Does the removeparam rule `line` apply to the request, judged from the rule TEXT alone (reference
/// ABP matcher for the pattern; documented semantics for the options: explicit positive types, else
/// the removeparam default document / subdocument / xhr; negated types; domain= against the label
/// suffixes of the initiator)?  None: the line uses something outside this reading (party options,
/// tags, /regex/ and the spellings whose ABP reading is not fixed), or the request has no initiator.
fn ref_rule_applies(line: &str, req: &Request, src: &str) -> Option<bool> {
    use adblock::request::RequestType as RT;
    use implrun::refmatch::{host_start, reference, split, host_cut};
    if line.starts_with("@@") {
        return None;
    }
    let (pat, opts) = match line.rfind('$') { Some(i) => (&line[..i], &line[i + 1..]), None => (line, "") };
    let (mut pos, mut neg, mut dpos, mut dneg): (Vec<RT>, Vec<RT>, Vec<String>, Vec<String>) = (vec![], vec![], vec![], vec![]);
    for o in opts.split(',') {
        let (n, name) = match o.strip_prefix('~') { Some(x) => (true, x), None => (false, o) };
        let t = match name {
            "xhr" | "xmlhttprequest" => Some(RT::Xmlhttprequest),
            "document" | "doc" if !n => Some(RT::Document),
            "subdocument" | "frame" => Some(RT::Subdocument),
            "script" => Some(RT::Script),
            "image" => Some(RT::Image),
            _ => None,
        };
        if let Some(t) = t {
            if n { neg.push(t) } else { pos.push(t) }
        } else if let Some(ds) = o.strip_prefix("domain=") {
            for d in ds.split('|') {
                match d.strip_prefix('~') { Some(x) => dneg.push(x.to_ascii_lowercase()), None => dpos.push(d.to_ascii_lowercase()) }
            }
        } else if o.starts_with("removeparam=") {
        } else {
            return None;
        }
    }
    // types
    let allowed: Vec<RT> = if pos.is_empty() { vec![RT::Document, RT::Subdocument, RT::Xmlhttprequest] } else { pos };
    let type_ok = allowed.contains(&req.request_type) && !neg.contains(&req.request_type);
    // initiator
    if !dpos.is_empty() || !dneg.is_empty() {
        let a = src.find("://")? + 3;
        let end = src[a..].find(|c| c == '/' || c == '?' || c == '#').map(|i| a + i).unwrap_or(src.len());
        let auth = &src[a..end];
        let auth = auth.rsplit('@').next().unwrap_or(auth);
        let host = auth.split(':').next().unwrap_or(auth).to_ascii_lowercase();
        if host.is_empty() || !host.is_ascii() {
            return None;
        }
        let under = |d: &String| host == *d || host.ends_with(&format!(".{}", d));
        if (!dpos.is_empty() && !dpos.iter().any(under)) || dneg.iter().any(under) {
            return Some(false);
        }
    }
    // pattern
    let sp = split(pat);
    let core = sp.body.to_ascii_lowercase();
    let pat_ok = if pat.is_empty() || pat == "*" {
        true
    } else {
        if !pat.is_ascii() || core.is_empty() || core.contains("^^") || core.contains('$') || core.starts_with('*') || core.ends_with('*')
            || (core.starts_with('/') && core.ends_with('/') && core.len() > 1) {
            return None;
        }
        match sp.left {
            1 if matches!(core.as_str(), "ws://" | "http://" | "https://" | "http*://") => return None,
            2 => {
                let cut = host_cut(&core);
                if core[..cut].trim_start_matches("www.").is_empty() || (sp.right && (core.ends_with('^') || core.contains('*'))) || cut == core.len() && sp.right {
                    return None;
                }
            }
            _ => {}
        }
        let url_lc = req.url.to_ascii_lowercase();
        let hs = host_start(req)?;
        reference(pat, url_lc.as_bytes(), req.hostname.as_bytes(), hs)?
    };
    if !(req.is_http || req.is_https) {
        return None;
    }
    Some(type_ok && pat_ok)
}

fn eval(rules: &[String], url: &str, src: &str, ty: &str, mode: usize, batch: usize) -> Option<(Vec<String>, bool, Option<String>, String)> {
    // the per-rule scan below sees the initiator: the request carries the source hostname
    let req = Request::new(url, src, ty).ok()?;
    let (important, rewritten) = run(rules, &req, mode, batch);
    struct Res { important: bool, rewritten_url: Option<String> }
    let res = Res { important, rewritten_url: rewritten };
    let mut names = vec![];
    for line in rules {
        if let Ok(f) = NetworkFilter::parse(line, true, Default::default()) {
            use adblock::filters::network::NetworkFilterMaskHelper;
            // (a rule whose line is repeated with `,badfilter` appended is not in force)
            let cancelled = rules.iter().any(|l| l.trim() == format!("{},badfilter", line.trim()));
            if f.is_removeparam() && !f.is_badfilter() && !cancelled {
                let mut rm = RegexManager::default();
                let hit = f.matches(&req, &mut rm);
                // the crate's matcher against the reading of the rule text
                let judged = ref_rule_applies(line, &req, src);
                TEXT_COUNTS.with(|c| { let (a, b, d) = c.get(); c.set(match judged { Some(true) => (a + 1, b, d), Some(false) => (a, b + 1, d), None => (a, b, d + 1) }) });
                if let Some(want) = judged {
                    if want != hit {
                        TEXT_MISMATCH.with(|m| m.borrow_mut().push(format!("the rule {:?} {} the {:?} request {} from {:?} by its text, but NetworkFilter::matches says {}", line, if want { "applies to" } else { "does not apply to" }, req.request_type, req.url, src, hit)));
                    }
                }
                if hit {
                    // the parameter name as written in the rule, not as stored by the parser
                    if let Some(n) = option_value(line, &["removeparam"]) {
                        names.push(n);
                    }
                }
            }
        }
    }
    let orig = adblock::request::verif::original_url(&req).to_string();
    Some((names, res.important, res.rewritten_url, orig))
}

fn main() {
    let a = args();
    if let Some(p) = &a.replay {
        let v: serde_json::Value = serde_json::from_str(&std::fs::read_to_string(p).unwrap()).unwrap();
        let rp = &v["replay"];
        let rules: Vec<String> = rp["rules"].as_array().unwrap().iter().map(|x| x.as_str().unwrap().to_string()).collect();
        let url = rp["url"].as_str().unwrap();
        let (names, imp, got, _orig) = eval(&rules, url, rp["source"].as_str().unwrap(), rp["type"].as_str().unwrap(), rp["mode"].as_u64().unwrap_or(0) as usize, rp["batch"].as_u64().unwrap_or(0) as usize).unwrap();
        let want = if imp { None } else { reference(&names, url) };
        println!("names={:?} important={} impl={:?} spec={:?}", names, imp, got, want);
        if got != want {
            println!("VIOLATION property=C14 replay={}", p.display());
            std::process::exit(1);
        }
        return;
    }
    let mut r = Rng::new(a.seed);
    let mut cs = Cases::new(&a.out, "C14_Model");
    let mut sm = Summary::default();
    sm.rule = "random rule lists (1-5 removeparam rules over 7 names, optional important/exception/blocking rules) x URLs whose query and fragment are drawn from a key/value grammar (empty values, key-only, '=' in values, '?' and '#' in fragments, non-ASCII); non-trivial = a parameter key equals a matching rule name (rewrite or empty-value keep). DOMAIN LISTS: 400 further rule lists hold 1-3 removeparam rules with domain=d1|..|d4 (2-5 domains of 7, sometimes a.com together with sub.a.com, sometimes one negated entry), pattern-less or with a token-less pattern (indexed once per listed domain when the parameter name gives no token: a, b, q, x, a_b, u-1) or with a tokenised pattern / name (indexed by token), preceded, followed or interleaved by 1-4 rules that sit in the buckets of those domains ($image,domain=.., $script,domain=.., @@$image,domain=.., removeparam rules with one or two domains, rarely $image,important,domain=..); loaded through Engine::from_rules (optimised / plain), Blocker::new + optimize, empty Blocker + add_filter in list order (with and without optimize) and Blocker::new on the leading rules (usually the occupants) + add_filter for the rest; one request per listed domain of a rule as initiator, one from a host below a listed domain, two from unlisted hosts, the query drawn from the rules' parameter names; the per-rule scan (NetworkFilter::matches on a Request built with that source) supplies the names for the unchanged reference".into();
    let n = 2400 * a.scale;
    let mut rules: Vec<String> = vec![];
    for it in 0..n {
        // three URLs per rule list
        if it % 3 == 0 { rules = gen_rules(&mut r); }
        RULE_NAMES.with(|n| *n.borrow_mut() = rules.iter().filter_map(|l| l.split("removeparam=").nth(1)).map(|x| x.split(',').next().unwrap_or("").to_string()).collect());
        { let k = r.below(rules.len()); let b = gen::url_for(&mut r, &rules[k]); RULE_BASE.with(|x| *x.borrow_mut() = Some(b)); }
        let url = gen_url(&mut r);
        // the source is never empty here: "no source + domain= rule" is the C01 finding F2, not a C14 matter
        let src = { let s = gen::source_url(&mut r); if s.is_empty() { "https://a.com/page".to_string() } else { s } };
        let ty = r.pick(&["document", "xhr", "subdocument", "script", "image", "main_frame", "csp_report", "fetch", "other", "sub_frame"]);
        let mode = r.below(4);
        // mode 3 cannot load $badfilter rules (add_filter rejects them) and F13-style duplicates: keep it to lists without them
        let mode = if mode == 3 && rules.iter().any(|l| l.contains("badfilter")) { 2 } else { mode };
        let Some((names, imp, got, _hook_orig)) = eval(&rules, &url, &src, ty, mode, 0) else { cs.stat("request_error"); continue };
        // the specification speaks about the URL the caller passed, not about any internal copy
        let orig = url.clone();
        let want = if imp { None } else { reference(&names, &orig) };
        sm.oracle_evaluations += 1;
        cs.stat(MODES[mode]);
        if url != url.to_ascii_lowercase() || !url.is_ascii() || url.starts_with(' ') || url.contains('@') { cs.stat("url_spelling_not_normal_form"); }
        let desc = json!({"rules": rules, "url": url, "source": src, "type": ty, "mode": mode, "matching_names": names, "important": imp, "impl": got});
        if got != want {
            sm.failure(None, &format!("rewritten_url {:?} but the specification gives {:?}", got, want), desc.clone());
        }
        for m in TEXT_MISMATCH.with(|m| std::mem::take(&mut *m.borrow_mut())) {
            sm.oracle_evaluations += 1;
            let mut d = desc.clone();
            d["text_reading"] = json!(true);
            sm.failure(None, &m, d);
        }
        cs.stat("rules_judged_by_text");
        let key_hit = names.iter().any(|nm| orig.contains(&format!("{}=", nm)));
        cs.stat(if got.is_some() { "rewritten" } else if names.is_empty() { "no_matching_rule" } else { "matching_rule_no_rewrite" });
        if imp { cs.stat("important") }
        let expr = format!(
            "ostr_eqb (rewritten_url {} {} {}) {}",
            cbool(imp), cstrs(&names), hxs(&orig), copt(&got, |s| hxs(s))
        );
        cs.case(expr, desc, key_hit);
    }
    // removeparam rules with domain=d1|d2|.. (pattern-less and patterned), loaded in batch and through
    // add_filter after rules that already sit in the buckets of those domains; initiators from every
    // listed domain, a subdomain of one, and an unlisted one
    for _ in 0..(400 * a.scale) {
        let dc = gen_domain_case(&mut r);
        let rules = dc.rules.clone();
        cs.stat("domain_dispatch_rule_lists");
        cs.stat(dc.order);
        for l in &rules {
            if let Some(f) = implrun::net::parse_net(l) {
                use adblock::filters::network::NetworkFilterMaskHelper;
                if f.is_removeparam() && has_domain_list(l) {
                    cs.stat(if f.get_tokens().len() > 1 { "multi_domain_removeparam_rule_indexed_once_per_domain" } else { "multi_domain_removeparam_rule_indexed_by_token" });
                }
            } else {
                cs.stat("domain_dispatch_rule_not_parsed");
            }
        }
        RULE_NAMES.with(|n| *n.borrow_mut() = rules.iter().filter_map(|l| l.split("removeparam=").nth(1)).map(|x| x.split(',').next().unwrap_or("").to_string()).collect());
        RULE_BASE.with(|x| *x.borrow_mut() = None);
        // initiators: every listed domain of one rule under test, a host below a listed domain, an unlisted host
        let ds = dc.listed[r.below(dc.listed.len())].clone();
        let mut sources: Vec<(String, &'static str)> = ds.iter().map(|d| (format!("https://{}/page", d), "source_is_listed_domain")).collect();
        sources.push((format!("https://www.{}/", ds[r.below(ds.len())]), "source_is_below_listed_domain"));
        let unlisted: Vec<&&str> = DDOMS.iter().filter(|d| !dc.listed.iter().flatten().any(|x| x == **d || d.ends_with(&format!(".{}", x)))).collect();
        sources.push((format!("https://{}/", if unlisted.is_empty() { "unlisted.org" } else { *unlisted[r.below(unlisted.len())] }), "source_is_unlisted"));
        sources.push(("https://unlisted.org/p".to_string(), "source_is_unlisted"));
        for (src, kind) in sources {
            let url = gen_domain_url(&mut r);
            let ty = r.pick(&["document", "xhr", "script", "image", "subdocument"]);
            let mode = r.pick(&[0usize, 1, 2, 3, 4, 4, 5, 5]);
            // mode 5: the occupants (or whatever comes first in the chosen order) in batch, the rest at run time
            let batch = if r.chance(2, 3) { dc.occupants.min(rules.len()) } else { r.below(rules.len() + 1) };
            let Some((names, imp, got, _)) = eval(&rules, &url, &src, ty, mode, batch) else { cs.stat("request_error"); continue };
            let want = if imp { None } else { reference(&names, &url) };
            sm.oracle_evaluations += 1;
            cs.stat("domain_dispatch_requests");
            cs.stat(MODES[mode]);
            cs.stat(kind);
            let desc = json!({"rules": rules, "url": url, "source": src, "type": ty, "mode": mode, "batch": batch, "order": dc.order, "matching_names": names, "important": imp, "impl": got});
            if got != want {
                sm.failure(None, &format!("rewritten_url {:?} but the specification gives {:?} (removeparam rules with domain lists, loading mode {} batch {})", got, want, mode, batch), desc.clone());
            }
            for m in TEXT_MISMATCH.with(|m| std::mem::take(&mut *m.borrow_mut())) {
                let mut d = desc.clone();
                d["text_reading"] = json!(true);
                sm.failure(None, &m, d);
            }
            // does a rule with a domain list match this initiator (per-rule scan)
            let multi = rules.iter().filter_map(|l| implrun::net::parse_net(l).map(|f| (l, f))).any(|(l, f)| {
                use adblock::filters::network::NetworkFilterMaskHelper;
                f.is_removeparam() && has_domain_list(l) && Request::new(&url, &src, ty).map_or(false, |q| implrun::net::rule_matches(&f, &q))
            });
            if multi { cs.stat("multi_domain_removeparam_rule_matches") }
            cs.stat(if got.is_some() { "rewritten" } else if names.is_empty() { "no_matching_rule" } else { "matching_rule_no_rewrite" });
            if got.is_some() && multi { cs.stat("rewritten_with_multi_domain_rule_matching") }
            if imp { cs.stat("important") }
            let key_hit = names.iter().any(|nm| url.contains(&format!("{}=", nm)));
            cs.case(
                format!("ostr_eqb (rewritten_url {} {} {}) {}", cbool(imp), cstrs(&names), hxs(&url), copt(&got, |s| hxs(s))),
                desc,
                key_hit,
            );
        }
    }
    // ---- a removeparam option combined with another modifier (redirect, redirect-rule, csp) is not a
    // rule: one rule carries one modifier value, and the parameter to strip must not silently become
    // the other option's argument
    for _ in 0..(200 * a.scale) {
        let p = r.pick(gen::PARAMS);
        let other = match r.below(4) { 0 => format!("redirect={}", r.pick(gen::RESOURCES)), 1 => format!("redirect-rule={}", r.pick(gen::RESOURCES)), 2 => "csp=script-src 'none'".to_string(), _ => format!("redirect-rule={}", r.pick(gen::PARAMS)) };
        let pat = if r.chance(1, 2) { format!("||{}^", r.pick(gen::HOSTS)) } else { gen::segs(&mut r, 1, 2) };
        let line = if r.chance(1, 2) { format!("{}$removeparam={},{}", pat, p, other) } else { format!("{}${},removeparam={}", pat, other, p) };
        cs.stat("removeparam_with_second_modifier");
        sm.oracle_evaluations += 1;
        if let Some(f) = implrun::net::parse_net(&line) {
            sm.failure(None, &format!("the line {:?} combines removeparam with another modifier and must be rejected; it is loaded with modifier value {:?}", line, f.modifier_option),
                json!({"rules": [line], "url": format!("https://{}/?{}=1", gen::HOSTS[0], p), "source": "https://a.com/page", "type": "xhr", "mode": 0, "batch": 0, "order": [], "must_reject": true}));
        }
    }
    // ---- long URLs: many path segments (around and beyond the tokenizer's 127-token cut-off) and long
    // byte strings; rules with and without an index token (`*$removeparam=q` lives in the fallback bucket)
    {
        let rules: Vec<String> = vec!["*$removeparam=q".into(), "*$removeparam=a_b".into(), "||h.example.com^$removeparam=utm_source".into(), "/s3x/$removeparam=ref".into()];
        let mut urls: Vec<String> = vec![];
        for k in [10usize, 100, 120, 122, 124, 125, 126, 127, 128, 129, 150, 400] {
            let segs: String = (0..k).map(|i| format!("s{}x", i)).collect::<Vec<_>>().join("/");
            urls.push(format!("https://h.example.com/{}?q=1&keep=2&a_b=3&utm_source=z&ref=r#frag", segs));
        }
        for n in [1000usize, 2040, 2048, 2100, 5000, 70000] {
            let payload: String = std::iter::repeat('a').take(n).collect();
            urls.push(format!("https://h.example.com/s3x/p?payload={}&q=1&a_b=2&ref=3", payload));
        }
        for url in urls {
            for mode in [0usize, 1] {
                let Some((names, imp, got, _)) = eval(&rules, &url, "https://a.com/page", "xhr", mode, 0) else { continue };
                let want = if imp { None } else { reference(&names, &url) };
                sm.oracle_evaluations += 1;
                cs.stat("long_url");
                if got != want {
                    // the request tokenizer stops after 127 tokens: a rule filed under a later token is not
                    // found (known finding; 128 = 127 tokens + the fallback token 0)
                    let beyond = Request::new(&url, "https://a.com/page", "xhr").map(|q| q.get_tokens().len() >= 128).unwrap_or(false);
                    let class = if beyond { Some("C14_url_beyond_token_cutoff") } else { None };
                    sm.failure(class, &format!("long URL ({} bytes): rewritten_url {:?} but the specification gives {:?}", url.len(), got.as_ref().map(|s| s.len()), want.as_ref().map(|s| s.len())),
                        json!({"rules": rules, "url": url, "source": "https://a.com/page", "type": "xhr", "mode": mode, "batch": 0, "order": []}));
                }
            }
        }
    }
    // a family made systematically: hostname-anchored removeparam rules (with and without a path) on
    // URLs WITHOUT a path whose query or fragment holds an authority look-alike (`@host/path`, `//host/`)
    for h in ["example.com", "ads.net", "foo.com", "x.com"] {
        let rules: Vec<String> = vec![format!("||{}/$removeparam=id", h), format!("||{}/track$removeparam=ref", h), format!("||{}^$removeparam=utm", h)];
        RULE_NAMES.with(|n| *n.borrow_mut() = vec!["id".into(), "ref".into(), "utm".into()]);
        RULE_BASE.with(|x| *x.borrow_mut() = None);
        for look in [format!("u=me@{}/track", h), format!("next=//{}/", h), format!("r=https://{}/track", h), format!("m=a:b@{}/", h), "plain=1".to_string()] {
            for sep in ["?", "#", "/?", "/#"] {
                let url = format!("https://{}{}{}&id=5&ref=6&utm=7", h, sep, look);
                for mode in [0usize, 1] {
                    let Some((names, imp, got, _)) = eval(&rules, &url, "https://a.com/page", "xhr", mode, 0) else { continue };
                    let want = if imp { None } else { reference(&names, &url) };
                    sm.oracle_evaluations += 1;
                    cs.stat("pathless_url_with_authority_lookalike");
                    let desc = json!({"rules": rules, "url": url, "source": "https://a.com/page", "type": "xhr", "mode": mode, "batch": 0, "order": []});
                    if got != want {
                        sm.failure(None, &format!("rewritten_url {:?} but the specification gives {:?}", got, want), desc.clone());
                    }
                    for m in TEXT_MISMATCH.with(|m| std::mem::take(&mut *m.borrow_mut())) {
                        let mut d = desc.clone();
                        d["text_reading"] = json!(true);
                        sm.failure(None, &m, d);
                    }
                }
            }
        }
    }
    { let (a, b, d) = TEXT_COUNTS.with(|c| c.get()); sm.extra.insert("removeparam_rules_judged_by_text".into(), json!({"applies": a, "does_not_apply": b, "outside_the_reading": d})); }
    cs.finish();
    sm.write(&a.out, &cs);
}
