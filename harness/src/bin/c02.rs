use adblock::filters::network::{NetworkFilter, NetworkMatchable};
use adblock::regex_manager::RegexManager;
use adblock::request::Request;
fn main() {
    let cases = [
        ("||ads.net^", "https://ads.net.xads.net/x"),
        ("||ads.net^", "https://xads.net/x"),
        ("||ads.net^", "https://ads.net.xads.net.foo.com/x"),
        ("||t/x", "https://t/x"),
        ("||s/x", "https://s/x"),
        ("||s/x", "http://s/x"),
        ("||ttp/x", "http://ttp/x"),
        ("||http/x", "http://http/x"),
        ("||tp.com/x", "http://tp.com/x"),
        ("||ads.net|", "https://ads.net/foo"),
        ("|http://|", "http://x.com/foo"),
        ("||foo.com/x", "https://foo.com@foo.com/x"),
        ("||a.b/x", "https://a.b:80/x"),
        ("||a.b:80/x", "https://a.b:80/x"),
        ("||a.b^x", "https://a.b:80/x"),
        ("||[^x", "https://[::1]/x"),
    ];
    for (rule, url) in cases {
        let f = NetworkFilter::parse(rule, true, Default::default());
        let r = Request::new(url, "https://a.com/", "script");
        match (f, r) {
            (Ok(f), Ok(r)) => {
                let mut rm = RegexManager::default();
                let d = adblock::verif_hooks::dump_filter(&f);
                println!("{} vs {} (host {} url {}) -> {}   [mask {:x} filter {:?} host {:?}]", rule, url, r.hostname, r.url, f.matches(&r, &mut rm), d.mask, d.filter, d.hostname);
            }
            (a, b) => println!("{} vs {}: parse {:?} req {:?}", rule, url, a.is_ok(), b.is_ok()),
        }
    }
    for t in ["a^^b", "^^^", "a\\b", "a^", "a^*", "^a", "a*^", "a^\nb", "a.b|c", "a-b", "^", "^^", "a^^"] {
        for (r, l) in [(false, false), (true, true)] {
            println!("{:?} r={} l={} => {:?}", t, r, l, adblock::verif_hooks::compile_regex_text(&[t], r, l, false));
        }
    }
    println!("{:?}", adblock::verif_hooks::compile_regex_text(&["a", "b^"], false, true, false));
    println!("{:?}", adblock::verif_hooks::compile_regex_text(&["a", ""], false, true, false));
    println!("{:?}", adblock::verif_hooks::compile_regex_text(&[], false, true, false));
    println!("{:?}", adblock::verif_hooks::compile_regex_text(&["/a\\/b\\:c\\d/"], false, true, true));
}
