//! C02 — a network rule's pattern matches a URL exactly when ABP pattern semantics say so.
//!
//! Correspondence (model = coq/theories/C02_Model.v):
//!   A  `anchored_hostname_end` / `get_url_after_anchor` on (filter host, request host) pairs
//!      built to collide;
//!   B  `verif_hooks::compile_regex_text` against the model's string translation, and the regex
//!      crate on that text against the token semantics (the `re_std` premise of the theorems);
//!   C  `NetworkFilter::parse(line)` fields against the model of the parser (`fields_agree`) and
//!      against the declarative reading of the text (`text_tie`), the crate's `check_pattern` on
//!      those fields against the model's `check_pattern` (regex answers supplied from the regex
//!      crate), and the L0 `ref_matchb (ast_of_text line)` against the crate's answer.
//! Oracle (independent of Coq): a reference ABP matcher in Rust against `NetworkFilter::matches`
//! on option-free rules, random and (sweep) exhaustive over short patterns.
use adblock::filters::network::{NetworkFilter, NetworkFilterMask, NetworkMatchable};
use adblock::filters::verif::matchers;
use adblock::regex_manager::RegexManager;
use adblock::request::Request;
use implrun::*;
use serde_json::{json, Value};

use implrun::refmatch::*;
fn is_scheme_pattern(p: &str) -> bool {
    matches!(p, "ws://" | "http://" | "https://" | "http*://")
}
/// the property's degenerate spellings (independent restatement of `nondegenerate_text`)
fn degenerate(rule: &str) -> bool {
    let sp = split(rule);
    let core = sp.body.to_ascii_lowercase();
    if core.is_empty() || core.contains("^^") || core.contains('\n') || core.contains('$') {
        return true;
    }
    if core.starts_with('*') || core.ends_with('*') {
        return true;
    }
    if core.starts_with('/') && core.ends_with('/') && core.len() > 1 {
        return true;
    }
    match sp.left {
        1 => is_scheme_pattern(&core),
        2 => {
            let cut = host_cut(&core);
            let h = core[..cut].trim_start_matches("www.");
            h.is_empty() || (sp.right && (core.ends_with('^') || core.contains('*')))
        }
        _ => false,
    }
}
/// F22: right '|' directly after a bare ||host, and |scheme://|
fn host_right_pipe(rule: &str) -> bool {
    let sp = split(rule);
    let core = sp.body.to_ascii_lowercase();
    sp.right
        && match sp.left {
            2 => host_cut(&core) == core.len(),
            1 => is_scheme_pattern(&core),
            _ => false,
        }
}
// ------------------------------------------------------------------ generators
const FHOSTS: &[&str] = &[
    "ads.net", "net", "ads", ".net", "ads.", ".ads", "xads.net", "ads.net.ads.net", "s.net", "ds.net", "foo.com", "com", "foo",
    "o.com", ".com", "foo.", "example.com", "example", "ple.com", "co.uk", "example.co.uk", "a", ".", "", "a.b", "b.example", "x.com",
    "net.ads", "t", "s", "http", "www.foo.com", "d", "ads.n",
];
/// Strings over a three-letter alphabet: periodic and self-overlapping hosts (`b.b` in `xb.b.b`,
/// `ab.ab` in `cab.ab.ab`), where the next occurrence starts inside the rejected one.
fn tiny(r: &mut Rng, lo: usize, hi: usize) -> String {
    let n = r.range(lo, hi);
    (0..n).map(|_| r.pick(&['a', 'b', '.', 'a', 'b'])).collect()
}
fn req_host(r: &mut Rng) -> String {
    if r.chance(1, 5) {
        return tiny(r, 2, 10);
    }
    let base = r.pick(gen::HOSTS);
    let h = r.pick(FHOSTS);
    match r.below(10) {
        0 => format!("x{}", base),
        1 => format!("{}.{}", base, base),
        2 => format!("sub.{}", base),
        3 if !h.is_empty() => format!("{}.x{}", h.trim_matches('.'), h.trim_matches('.')),
        4 if !h.is_empty() => format!("x{}.{}", h.trim_matches('.'), h.trim_matches('.')),
        5 => format!("{}work", base),
        6 if !h.is_empty() => format!("{}.{}.evil.org", h.trim_matches('.'), base),
        _ => base.to_string(),
    }
}
fn filter_host(r: &mut Rng, host: &str) -> String {
    if host.bytes().all(|c| c == b'a' || c == b'b' || c == b'.') {
        if r.chance(2, 3) {
            return tiny(r, 1, 4);
        }
    }
    match r.below(8) {
        0 | 1 => (r.pick(FHOSTS)).to_string(),
        2 => {
            // a label-aligned suffix of the request host
            let idx: Vec<usize> = host.match_indices('.').map(|(i, _)| i).collect();
            if idx.is_empty() {
                host.to_string()
            } else {
                let i = r.pick(&idx);
                host[if r.chance(1, 4) { i } else { i + 1 }..].to_string()
            }
        }
        3 => {
            // an arbitrary infix
            let a = r.below(host.len().max(1));
            let b = r.range(a, host.len());
            host[a..b].to_string()
        }
        4 => {
            // a prefix ending at a label end (or not)
            let idx: Vec<usize> = host.match_indices('.').map(|(i, _)| i).collect();
            if idx.is_empty() {
                host.to_string()
            } else {
                let i = r.pick(&idx);
                host[..if r.chance(1, 4) { i + 1 } else { i }].to_string()
            }
        }
        _ => host.to_string(),
    }
}
const PATHS: &[&str] = &[
    "", "/", "/ads", "/loads/foo", "/ads/foo/x", "/ad.foo", "/x-ads?x=ads&foo=x", "/ads.net/x", "/foo.com", "/ads:x", "/ads^foo", "/ADS/Foo",
    "/ads/", ":8080/ads", "/ads.net", "/x/ads.net.x/ads", "/banner.js", "/a1/%20/b_c-d", "/ads*foo", "/?ads", "/#ads",
];
fn body(r: &mut Rng) -> String {
    // pattern grammar of DESIGN.md §3.4, plus degenerate spellings at a low rate
    let mut s = gen::pattern(r);
    if r.chance(1, 12) {
        let extra = r.pick(&["^^", "**", "\\", "^*", "*^", "^|", "*|", "*", "^", "/"]);
        let at = r.below(s.len() + 1);
        if s.is_char_boundary(at) {
            s.insert_str(at, extra);
        }
    }
    if r.chance(1, 10) {
        s = s.to_ascii_uppercase();
    }
    s
}
fn rule_line(r: &mut Rng) -> String {
    match r.below(24) {
        0 => format!("||{}^", r.pick(FHOSTS)),
        1 => format!("||{}|", r.pick(FHOSTS)),
        2 => format!("||{}", r.pick(FHOSTS)),
        3 => format!("||{}*{}", r.pick(gen::HOSTS), r.pick(gen::VOCAB)),
        4 => format!("||{}*{}^{}", r.pick(gen::HOSTS), r.pick(gen::VOCAB), r.pick(gen::VOCAB)),
        5 => (r.pick(&["|http://|", "|https://|", "|http://", "|https://", "|ws://", "|http*://", "||http://", "|http://x.com/", "|https://ads.net^"])).to_string(),
        6 => format!("||{}{}^", r.pick(&["www.", "www.", "WWW.", "Www.", "www.www.", "www.WWW."]), r.pick(gen::HOSTS)),
        7 => format!("||{}/{}|", r.pick(gen::HOSTS), r.pick(gen::VOCAB)),
        8 => format!("@@||{}^{}", r.pick(gen::HOSTS), r.pick(gen::VOCAB)),
        9 => full_regex_rule(r),
        _ => body(r),
    }
}
fn full_regex_rule(r: &mut Rng) -> String {
    {
        {
            // full-regex rule; the literal part in lower, upper or mixed case (the URL is matched
            // lower-cased unless $match-case, so the body has to be folded as well)
            let w = r.pick(gen::VOCAB);
            let w = match r.below(3) { 0 => w.to_string(), 1 => w.to_uppercase(), _ => { let mut c = w.chars(); c.next().map(|f| f.to_uppercase().collect::<String>() + c.as_str()).unwrap_or_default() } };
            // (every escape whose letter is upper-case: \D \W \S \B and also \A \PL \x4A)
            let head = r.pick(&["", "", "", "\\A[a-z]+\\:\\/\\/[a-z.0-9]+\\/"]);
            format!("/{}{}\\/[a-z]+{}/", head, w, r.pick(&["", "\\d", "\\:", ".*", "\\D", "\\W", "\\S\\d", "[0-9A-F]", "\\PL", "\\B\\d", "\\x2F"]))
        }
    }
}
fn url_line(r: &mut Rng, rule: &str) -> String {
    if rule.len() > 2 && rule.starts_with('/') && rule.ends_with('/') && r.chance(2, 3) {
        // a URL for the /word\/[a-z]+.../ rules: the word in some case, letters, then a digit or ':'
        // the word in front of `\/[a-z]+` (after an optional `\A…\/` head)
        let core = &rule[1..rule.len() - 1];
        let left = core.rsplit_once("\\/[a-z]+").map(|(a, _)| a).unwrap_or(core);
        let w = left.rsplit("\\/").next().unwrap_or("x");
        let w = if r.chance(1, 2) { w.to_string() } else if r.chance(1, 2) { w.to_uppercase() } else { w.to_lowercase() };
        let host = r.pick(gen::HOSTS);
        let mid = r.pick(&["abc", "x", "Ab"]);
        let tails = ["", "7", ":", "/z", "x7", ":7"];
        // two thirds of the time a URL the expression (as written, case-insensitively) accepts
        if r.chance(2, 3) {
            let body = rule[1..rule.len() - 1].replace("\\/", "/").replace("\\:", ":");
            if let Ok(re) = regex::RegexBuilder::new(&body).case_insensitive(true).unicode(false).build() {
                for t in tails {
                    let u = format!("https://{}/{}/{}{}", host, w, mid, t);
                    if re.is_match(&u) {
                        return u;
                    }
                }
            }
        }
        return format!("https://{}/{}/{}{}", host, w, mid, r.pick(&tails));
    }
    if r.chance(1, 10) {
        // the text the rule looks for only in the FRAGMENT of the URL
        let u = gen::url_for(r, rule);
        if let Some(i) = u.find("://").and_then(|a| u[a + 3..].find('/').map(|b| a + 3 + b)) {
            return format!("{}/index.html#{}", &u[..i], &u[i..]);
        }
    }
    match r.below(7) {
        0 | 1 => gen::url_for(r, rule),
        2 => gen::url(r).replace("ws://", "http://").replace("wss://", "https://"),
        3 => format!("{}://{}{}{}", r.pick(&["https", "http"]), r.pick(&["u@", "u:p@", "foo.com@", "t:s@"]), req_host(r), r.pick(PATHS)),
        _ => format!("{}://{}{}", r.pick(&["https", "http"]), req_host(r), r.pick(PATHS)),
    }
}

// ------------------------------------------------------------------ implementation runs
struct Eval {
    mask: u32,
    filter: Vec<String>,
    hostname: Option<String>,
    url: String,
    url_lc: String,
    host: String,
    hs: Option<usize>,
    matches: bool,
    pattern_ok: bool,
    regex_text: Option<String>,
    regex_ok: bool,
    regex_lens: Vec<usize>,
}
/// (rule, url, first evaluation, an evaluation after the cached regex was discarded)
static DISCARD_MISMATCH: std::sync::Mutex<Vec<(String, String, bool, bool)>> = std::sync::Mutex::new(Vec::new());
/// The same rule on the same request under a manager that throws every compiled regex away at once
/// (the public discard policy): the first answer, then two answers after a discard each.  The
/// pattern semantics do not mention whether the regex is compiled for the first time or again.
fn after_discard(f: &NetworkFilter, req: &Request) -> Vec<bool> {
    let mut rm = RegexManager::default();
    rm.set_discard_policy(adblock::regex_manager::RegexManagerDiscardPolicy {
        cleanup_interval: std::time::Duration::from_nanos(1),
        discard_unused_time: std::time::Duration::ZERO,
    });
    let mut out = vec![f.matches(req, &mut rm)];
    for _ in 0..2 {
        std::thread::sleep(std::time::Duration::from_micros(60));
        rm.update_time();
        out.push(f.matches(req, &mut rm));
    }
    out
}
fn eval(rule: &str, url: &str) -> Result<Eval, String> {
    let f = NetworkFilter::parse(rule, true, Default::default()).map_err(|e| format!("parse:{:?}", e))?;
    let req = Request::new(url, "https://source.example.org/", "script").map_err(|_| "request".to_string())?;
    let d = adblock::verif_hooks::dump_filter(&f);
    let mut rm = RegexManager::default();
    let matches = f.matches(&req, &mut rm);
    if f.mask.contains(NetworkFilterMask::IS_REGEX) || f.mask.contains(NetworkFilterMask::IS_COMPLETE_REGEX) {
        let again = after_discard(&f, &req);
        if let Some(b) = again.iter().find(|b| **b != matches) {
            DISCARD_MISMATCH.lock().unwrap().push((rule.to_string(), url.to_string(), matches, *b));
        }
    }
    let mut rm2 = RegexManager::default();
    let pattern_ok = adblock::filters::verif::check_pattern(f.mask, f.filter.iter(), f.hostname.as_deref(), 1u64, &req, &mut rm2);
    let url_lc = adblock::request::verif::url_lower_cased(&req).to_string();
    let is_rx = f.mask.contains(NetworkFilterMask::IS_REGEX) || f.mask.contains(NetworkFilterMask::IS_COMPLETE_REGEX);
    let mut regex_text = None;
    let mut regex_ok = true;
    let mut regex_lens = vec![];
    if is_rx && !d.filter.is_empty() {
        let parts: Vec<&str> = d.filter.iter().map(|s| s.as_str()).collect();
        let text = adblock::verif_hooks::compile_regex_text(
            &parts,
            f.mask.contains(NetworkFilterMask::IS_RIGHT_ANCHOR),
            f.mask.contains(NetworkFilterMask::IS_LEFT_ANCHOR),
            f.mask.contains(NetworkFilterMask::IS_COMPLETE_REGEX),
        );
        let hay = if f.mask.contains(NetworkFilterMask::MATCH_CASE) { req.url.as_bytes() } else { url_lc.as_bytes() };
        // the regex crate itself, on the text the crate built (unescaped complete regexes: the
        // Display text is the pattern handed to the builder)
        match regex::bytes::RegexBuilder::new(&text).unicode(false).build() {
            Ok(re) if text != "ERROR" => {
                for i in 0..=hay.len() {
                    if re.is_match(&hay[i..]) {
                        regex_lens.push(hay.len() - i);
                    }
                }
            }
            _ => regex_ok = false,
        }
        regex_text = Some(text);
    }
    Ok(Eval {
        mask: d.mask,
        filter: d.filter.clone(),
        hostname: d.hostname.clone(),
        url: req.url.clone(),
        url_lc,
        host: req.hostname.clone(),
        hs: host_start(&req),
        matches,
        pattern_ok,
        regex_text,
        regex_ok,
        regex_lens,
    })
}
fn scheme_ok(mask: u32, url: &str) -> bool {
    let m = NetworkFilterMask::from_bits_truncate(mask);
    if url.starts_with("https:") {
        m.contains(NetworkFilterMask::FROM_HTTPS)
    } else if url.starts_with("http:") {
        m.contains(NetworkFilterMask::FROM_HTTP)
    } else {
        true
    }
}
fn coq_filter(e: &Eval) -> String {
    match e.filter.len() {
        0 => "None".to_string(),
        _ => format!("(Some {})", hxs(&e.filter[0])),
    }
}
fn coq_req(e: &Eval) -> String {
    format!("{{| r_url := {}; r_host := {} |}}", hxs(&e.url), hxs(&e.host))
}

/// One oracle comparison; returns true when the pair was evaluated.
/// The rule inside an ENGINE: an engine built from this one blocking rule blocks a script request to
/// the URL exactly when the pattern semantics say the rule matches (the index must not lose it:
/// tokens of the rule vs tokens of the request, fragment included).  Only asked where the per-rule
/// matcher agrees with the semantics and outside C01's known classes (ASCII, no '*' in the URL,
/// below the token cut-off, http(s)).
fn engine_level(sm: &mut Summary, stats: &mut std::collections::BTreeMap<String, u64>, rule: &str, url: &str, want: bool) {
    if rule.starts_with("@@") || url.contains('*') || !url.is_ascii() || !rule.is_ascii() || implrun::net::parse_net(rule).is_none() {
        return;
    }
    let Ok(req) = Request::new(url, "https://source.example.org/", "script") else { return };
    if !(req.is_http || req.is_https) || req.get_tokens().len() >= 128 {
        return;
    }
    let eng = adblock::Engine::from_rules_parametrised([rule.to_string()].iter(), Default::default(), true, false);
    let got = eng.check_network_request(&req).matched;
    sm.oracle_evaluations += 1;
    *stats.entry("oracle_engine_level".into()).or_insert(0) += 1;
    if got != want {
        sm.failure(None, &format!("rule {:?} on {:?}: the rule matches = {} by the pattern semantics and by NetworkFilter::matches, but an engine holding just this rule answers matched = {}", rule, url, want, got), json!({"rule": rule, "url": url, "engine": true}));
    }
}

fn oracle(sm: &mut Summary, stats: &mut std::collections::BTreeMap<String, u64>, rule: &str, url: &str, e: &Eval) {
    let Some(hs) = e.hs else {
        *stats.entry("oracle_skipped_no_host_offset".into()).or_insert(0) += 1;
        return;
    };
    if rule.contains('$') || !rule.is_ascii() || !e.url.is_ascii() {
        return;
    }
    // full-regex rule: it matches exactly when the regular expression finds a match in the URL,
    // case-insensitively (no $match-case here).  Independent reading: the regex crate on the body as
    // written (only `\/` and `\:` unescaped, as documented) with the (?i) flag, on the URL as given.
    if rule.len() > 2 && rule.starts_with('/') && rule.ends_with('/') {
        let body = rule[1..rule.len() - 1].replace("\\/", "/").replace("\\:", ":");
        if let Ok(re) = regex::RegexBuilder::new(&body).case_insensitive(true).unicode(false).build() {
            let want = re.is_match(&e.url);
            sm.oracle_evaluations += 1;
            *stats.entry("oracle_full_regex_rules".into()).or_insert(0) += 1;
            if e.matches != want {
                sm.failure(None, &format!("full-regex rule {:?} on {:?}: NetworkFilter::matches = {}, the regular expression (case-insensitive) says {}", rule, e.url, e.matches, want), json!({"rule": rule, "url": url}));
            } else {
                engine_level(sm, stats, rule, url, want);
            }
        }
        return;
    }
    let Some(want0) = reference(rule, e.url_lc.as_bytes(), e.host.as_bytes(), hs) else { return };
    // option-free rule, script request: the options part only restricts the scheme (|http:// forms)
    let want = want0 && scheme_ok(e.mask, &e.url);
    sm.oracle_evaluations += 1;
    if e.matches == want {
        if !degenerate(rule) && !host_right_pipe(rule) {
            engine_level(sm, stats, rule, url, want);
        }
        return;
    }
    let replay = json!({"rule": rule, "url": url});
    let what = format!("rule {:?} on {:?}: NetworkFilter::matches = {}, ABP semantics = {}", rule, e.url, e.matches, want);
    if host_right_pipe(rule) {
        sm.failure(Some("F22_host_right_pipe"), &what, replay);
    } else if degenerate(rule) {
        *stats.entry("oracle_degenerate_disagreements".into()).or_insert(0) += 1;
    } else {
        sm.failure(None, &what, replay);
    }
}

fn sweep(sm: &mut Summary, stats: &mut std::collections::BTreeMap<String, u64>, maxlen: usize) {
    let alpha = [b'a', b'b', b'/', b'.', b'*', b'^'];
    let mut bodies: Vec<String> = vec![];
    let mut cur: Vec<Vec<u8>> = vec![vec![]];
    for _ in 0..maxlen {
        let mut next = vec![];
        for b in &cur {
            for c in alpha {
                let mut n = b.clone();
                n.push(c);
                bodies.push(String::from_utf8(n.clone()).unwrap());
                next.push(n);
            }
        }
        cur = next;
    }
    let hosts = ["a.b", "b.a.b", "ab.b", "a", "b", "ba.b", "a.b.a", "b.ab", "a.bb", "aa.b.ab"];
    let paths = ["", "/", "/a", "/a/b", "/b.a", "/a.b/a", "/ab", "/a?b", "/ba/", "/a.b", ":8/a", "/A/B", "/b/a.b/b", "/a^b", "/a*b", "/b//a"];
    let mut reqs = vec![];
    for sch in ["https", "http"] {
        for h in hosts {
            for p in paths {
                let u = format!("{}://{}{}", sch, h, p);
                if let Ok(r) = Request::new(&u, "https://source.example.org/", "script") {
                    let lc = adblock::request::verif::url_lower_cased(&r).to_string();
                    reqs.push((u, r, lc));
                }
            }
        }
    }
    let mut rules = 0u64;
    for l in ["", "|", "||"] {
        for b in &bodies {
            for rt in ["", "|"] {
                let rule = format!("{}{}{}", l, b, rt);
                let Ok(f) = NetworkFilter::parse(&rule, true, Default::default()) else { continue };
                rules += 1;
                let deg = degenerate(&rule);
                let f22 = host_right_pipe(&rule);
                if deg && !f22 {
                    continue;
                }
                for (u, r, lc) in &reqs {
                    let Some(hs) = host_start(r) else { continue };
                    let Some(want) = reference(&rule, lc.as_bytes(), r.hostname.as_bytes(), hs) else { continue };
                    let mut rm = RegexManager::default();
                    let got = f.matches(r, &mut rm);
                    sm.oracle_evaluations += 1;
                    if got == want {
                        continue;
                    }
                    let what = format!("sweep: rule {:?} on {:?}: matches = {}, ABP semantics = {}", rule, u, got, want);
                    let replay = json!({"rule": rule, "url": u});
                    if f22 {
                        sm.failure(Some("F22_host_right_pipe"), &what, replay);
                    } else {
                        sm.failure(None, &what, replay);
                    }
                }
            }
        }
    }
    // two families the plain sweep cannot reach with its alphabet and depth:
    // (a) rules pinned at the START of the URL (`|https://a.b` + body [+ `|`]): a left-anchored rule only
    //     matches URLs that begin with its literal text, i.e. with scheme and host;
    // (b) hostname-anchored rules whose remainder is regex-type (`||b*^a`, `||a.b^*a`): the remainder
    //     must match directly AFTER the anchored host, not somewhere in scheme or subdomain.
    let mut extra: Vec<String> = vec![];
    for pre in ["|https://a.b", "|http://b.a.b", "|https://a"] {
        extra.push(pre.to_string());
        extra.push(format!("{}|", pre));
        for b in bodies.iter().filter(|b| b.len() <= 2.max(maxlen - 1)) {
            extra.push(format!("{}{}", pre, b));
            extra.push(format!("{}{}|", pre, b));
        }
    }
    for h in ["b", "a.b", "ab.b", "a"] {
        for head in ["*", "^"] {
            for b in bodies.iter().filter(|b| b.len() <= 2.max(maxlen - 1)) {
                extra.push(format!("||{}{}{}", h, head, b));
            }
        }
    }
    for rule in extra {
        let Ok(f) = NetworkFilter::parse(&rule, true, Default::default()) else { continue };
        if degenerate(&rule) {
            continue;
        }
        rules += 1;
        for (u, r, lc) in &reqs {
            let Some(hs) = host_start(r) else { continue };
            let Some(want) = reference(&rule, lc.as_bytes(), r.hostname.as_bytes(), hs) else { continue };
            let mut rm = RegexManager::default();
            let got = f.matches(r, &mut rm);
            sm.oracle_evaluations += 1;
            *stats.entry(if want { "sweep_anchored_families_match".into() } else { "sweep_anchored_families_no_match".into() }).or_insert(0) += 1;
            if got != want {
                sm.failure(None, &format!("sweep: rule {:?} on {:?}: matches = {}, ABP semantics = {}", rule, u, got, want), json!({"rule": rule, "url": u}));
            }
        }
    }
    stats.insert("sweep_rules".into(), rules);
    stats.insert("sweep_requests".into(), reqs.len() as u64);
}

fn replay(v: &Value, path: &std::path::Path) -> i32 {
    let rp = &v["replay"];
    let rule = rp["rule"].as_str().unwrap_or("");
    let url = rp["url"].as_str().unwrap_or("");
    match eval(rule, url) {
        Err(e) => {
            println!("rule {:?} url {:?}: not evaluable ({})", rule, url, e);
            0
        }
        Ok(e) => {
            let want = if rule.len() > 2 && rule.starts_with('/') && rule.ends_with('/') && !rule.contains('$') {
                let body = rule[1..rule.len() - 1].replace("\\/", "/").replace("\\:", ":");
                regex::RegexBuilder::new(&body).case_insensitive(true).unicode(false).build().ok().map(|re| re.is_match(&e.url))
            } else {
                e.hs.and_then(|hs| reference(rule, e.url_lc.as_bytes(), e.host.as_bytes(), hs)).map(|w| w && scheme_ok(e.mask, &e.url))
            };
            println!(
                "rule {:?} url {:?} host {:?}: mask {:#x} filter {:?} hostname {:?}; matches = {}, ABP semantics = {:?}; F22 class {}, degenerate {}",
                rule, e.url, e.host, e.mask, e.filter, e.hostname, e.matches, want, host_right_pipe(rule), degenerate(rule)
            );
            let dm = DISCARD_MISMATCH.lock().unwrap().clone();
            if let Some((_, _, a, b)) = dm.first() {
                println!("first evaluation = {}, evaluation after the compiled regex was discarded and built again = {}", a, b);
            }
            if (want.is_some() && want != Some(e.matches)) || !dm.is_empty() {
                println!("VIOLATION property=C02 replay={}", path.display());
                1
            } else if rp["engine"].as_bool().unwrap_or(false) {
                let eng = adblock::Engine::from_rules_parametrised([rule.to_string()].iter(), Default::default(), true, false);
                let got = Request::new(url, "https://source.example.org/", "script").map(|q| eng.check_network_request(&q).matched).ok();
                println!("engine holding just this rule: matched = {:?}", got);
                if got.is_some() && got != want {
                    println!("VIOLATION property=C02 replay={}", path.display());
                    1
                } else { 0 }
            } else {
                0
            }
        }
    }
}

fn main() {
    let a = args();
    if let Some(p) = &a.replay {
        let v: Value = serde_json::from_str(&std::fs::read_to_string(p).unwrap()).unwrap();
        std::process::exit(replay(&v, p));
    }
    let mut r = Rng::new(a.seed);
    let mut cs = Cases::new(&a.out, "C02_Model");
    let mut sm = Summary::default();
    let mut ostats: std::collections::BTreeMap<String, u64> = Default::default();
    sm.rule = "A: (filter host, request host) pairs built to collide (label-aligned suffixes/prefixes, infixes, leading/trailing dots, repeated hosts) x wildcard x at_hostname_end; non-trivial = the filter host occurs in the request host. B: filter texts from the pattern grammar incl. degenerate spellings x anchors; non-trivial = contains '^', '*' or an escaped character. C: option-free rule lines (grammar of DESIGN.md 3.4 + ||host^, ||host|, ||host*x, |scheme:// forms, /re/) x URLs built from the rule or from the host universe; non-trivial = the crate's check_pattern returned true or the rule is hostname-anchored with an occurrence of its host in the request host. Every rule on the regex path is also evaluated under a manager that discards each compiled regex at once (first answer and two answers after a discard must agree)".into();

    // witnesses of the known finding F22 (so that the class stays exercised) and of the three
    // findings repaired in /repo (a regression is a plain violation), plus credentials in the URL
    for (rule, url) in [
        ("||ads.net|", "https://foo.com.ads.net/ad.foo"),
        ("|http://|", "http://x.com/foo"),
        ("||ads.net^", "https://ads.net.xads.net/x"),
        ("||t/x", "https://t/x"),
        ("||WWW.ads.net^", "https://ads.net/x"),
        ("||foo.com/x", "https://foo.com@foo.com/x"),
        ("||foo.com/x", "https://u:p@foo.com/x?a@b"),
        ("||p.com^x", "http://p.com/x"),
    ] {
        if let Ok(e) = eval(rule, url) {
            oracle(&mut sm, &mut ostats, rule, url, &e);
        }
    }

    // ---------------- A: hostname anchoring
    let n_a = 900 * a.scale;
    for ia in 0..n_a {
        let (host, fh) = if ia % 3 == 0 {
            // tiny alphabet, filter host occurring at least twice in the request host (overlapping
            // occurrences count): every candidate position of the scan loop is exercised
            let mut best = (tiny(&mut r, 4, 9), tiny(&mut r, 1, 4));
            if r.chance(1, 2) {
                // periodic hosts: filter host = k repetitions of a unit joined by '.', request host = an
                // optional glued / dotted prefix, m >= k repetitions, an optional glued / dotted suffix
                let u = r.pick(&["a", "b", "ab", "a.b", "ads"]);
                let k = r.range(2, 3);
                let m = r.range(k, k + 2);
                let fh = vec![u; k].join(".");
                let host = format!("{}{}{}", r.pick(&["", "x", "x.", "b", ".", "ab"]), vec![u; m].join("."), r.pick(&["", "", "x", ".x", ".com", "a"]));
                best = (host, fh);
            } else {
            for _ in 0..60 {
                let fh = tiny(&mut r, 1, 4);
                let host = tiny(&mut r, 4, 9);
                let occ = (0..host.len()).filter(|i| host[*i..].starts_with(&fh)).count();
                if occ >= 2 {
                    best = (host, fh);
                    break;
                }
            }
            }
            best
        } else {
            let host = req_host(&mut r);
            let fh = filter_host(&mut r, &host);
            (host, fh)
        };
        let w = r.chance(1, 4);
        let e = r.chance(1, 3);
        let got = matchers::anchored_hostname_end(&fh, &host, w, e);
        let expr = format!(
            "onat_eqb (anchored_hostname_end {} {} {} {}) {}",
            hxs(&fh), hxs(&host), cbool(w), cbool(e), copt(&got, |k| cnat(*k))
        );
        let occ = !fh.is_empty() && host.contains(&fh);
        cs.stat(if got.is_some() { "A_anchored" } else if occ { "A_occurs_not_anchored" } else { "A_no_occurrence" });
        if !fh.is_empty() && host.matches(&fh).count() > 1 {
            cs.stat("A_multiple_occurrences");
        }
        if !fh.is_empty() && (0..host.len()).filter(|i| host[*i..].starts_with(&fh)).count() > host.matches(&fh).count() {
            cs.stat("A_overlapping_occurrences");
        }
        cs.case(expr, json!({"what": "anchored_hostname_end", "filter_hostname": fh, "hostname": host, "wildcard": w, "at_hostname_end": e, "impl": got}), occ);
        // the same pair at rule level (||fh^ , ||fh/x against https://host/x): a failing input of the
        // property itself when the scan loop is wrong
        if !fh.is_empty() && !fh.starts_with('.') && !fh.ends_with('.') && !fh.contains("..") && !host.starts_with('.') && !host.ends_with('.') && !host.contains("..") {
            for (rule, url) in [(format!("||{}^", fh), format!("https://{}/x", host)), (format!("||{}/x", fh), format!("http://{}/x", host))] {
                if let Ok(ev) = eval(&rule, &url) {
                    cs.stat("A_rule_level_oracle");
                    oracle(&mut sm, &mut ostats, &rule, &url, &ev);
                }
            }
        }
        // get_url_after_anchor on a URL carrying that host
        let cred = r.pick(&["", "", "", "u@", "u:p@", "ads.net@", "t@"]);
        let url = format!("{}://{}{}{}", r.pick(&["https", "http", "https", "s", ""]), cred, host, r.pick(PATHS)).to_ascii_lowercase();
        let url = if r.chance(1, 12) { url.replace("://", ":") } else { url };
        let ae = match got {
            Some(k) if r.chance(3, 4) => k,
            _ => r.below(host.len() + 1),
        };
        let (u2, h2) = (url.clone(), host.clone());
        if let Ok(after) = catch(move || matchers::get_url_after_anchor(&u2, &h2, ae).to_string()) {
            let expr = format!("str_eqb (get_url_after_anchor {} {} {}) {}", hxs(&url), hxs(&host), cnat(ae), hxs(&after));
            cs.case(expr, json!({"what": "get_url_after_anchor", "url": url, "hostname": host, "anchor_end": ae, "impl": after}), ae > 0);
        } else {
            cs.stat("A_after_anchor_panicked");
        }
    }

    // ---------------- A2: full-regex rules against URLs built for them (oracle: the regex itself)
    for _ in 0..(250 * a.scale) {
        let rule = full_regex_rule(&mut r);
        let url = url_line(&mut r, &rule);
        if let Ok(ev) = eval(&rule, &url) {
            cs.stat(if ev.matches { "A2_full_regex_match" } else { "A2_full_regex_nomatch" });
            oracle(&mut sm, &mut ostats, &rule, &url, &ev);
        }
    }

    // ---------------- B: compile_regex text and the regex crate on it
    let n_b = 350 * a.scale;
    for _ in 0..n_b {
        let k = if r.chance(1, 8) { r.range(2, 3) } else { 1 };
        let mut parts: Vec<String> = vec![];
        for _ in 0..k {
            let mut t = split(&body(&mut r)).body.to_ascii_lowercase();
            if let Some(x) = t.strip_prefix('|') {
                t = x.to_string();
            }
            if r.chance(1, 30) {
                t.clear();
            }
            if k > 1 && r.chance(1, 5) {
                t.push_str(r.pick(&["\\", "\\o", "\\d"]));
            }
            parts.push(t);
        }
        let la = r.chance(1, 2);
        let ra = r.chance(1, 3);
        let refs: Vec<&str> = parts.iter().map(|s| s.as_str()).collect();
        let text = adblock::verif_hooks::compile_regex_text(&refs, ra, la, false);
        // does the regex crate compile each member on its own? (asked through the same hook)
        let oks: Vec<bool> = refs.iter().map(|p| adblock::verif_hooks::compile_regex_text(&[*p], ra, la, false) != "ERROR").collect();
        let expr = format!(
            "str_eqb (compiled_text (compile_regex {} {} {} false) {}) {}",
            cstrs(&parts), cbool(ra), cbool(la), clist(&oks, |b| cbool(*b).to_string()), hxs(&text)
        );
        if oks.iter().any(|b| !*b) && k > 1 {
            cs.stat("B_set_with_uncompilable_member");
        }
        let nt = parts.iter().any(|p| p.contains('^') || p.contains('*') || p.contains('.') || p.contains('?'));
        cs.stat(if text == "ERROR" { "B_regex_rejected" } else { "B_regex_text" });
        cs.case(expr, json!({"what": "compile_regex_text", "filters": parts, "right": ra, "left": la, "impl": text}), nt);
        // the premise re_std, monitored: regex crate on the text = token semantics
        if k == 1 && !parts[0].is_empty() && !parts[0].contains("^^") && !parts[0].contains('\\') && !parts[0].contains('\n') {
            if let Ok(re) = regex::bytes::RegexBuilder::new(&text).unicode(false).build() {
                let p = toks(&parts[0]);
                for _ in 0..6 {
                    let u = url_line(&mut r, &parts[0]).to_ascii_lowercase();
                    for i in [0, u.len() / 3, u.len() / 2] {
                        if !u.is_char_boundary(i) {
                            continue;
                        }
                        let hay = &u.as_bytes()[i..];
                        sm.oracle_evaluations += 1;
                        let (got, want) = (re.is_match(hay), search(&p, hay, la, ra));
                        if got != want {
                            sm.failure(None, &format!("regex crate on {:?} (from filter {:?}, left {}, right {}) vs token semantics on {:?}: {} vs {}", text, parts[0], la, ra, &u[i..], got, want), json!({"rule": format!("{}{}{}", if la {"|"} else {""}, parts[0], if ra {"|"} else {""}), "url": u}));
                        }
                    }
                }
            }
        }
    }
    // complete regex unescaping
    for t in ["/a\\/b\\:c\\d/", "/ads/", "/a", "a/", "//", "/\\/\\//", "/x\\\\:y/", "/"] {
        for _ in 0..a.scale.min(1) {
            let text = adblock::verif_hooks::compile_regex_text(&[t], false, false, true);
            let expr = format!(
                "str_eqb (compiled_text (compile_regex {} false false true) [{}]) {}",
                cstrs(&[t.to_string()]), cbool(text != "ERROR"), hxs(&text)
            );
            cs.case(expr, json!({"what": "compile_regex_text(complete)", "filter": t, "impl": text}), true);
        }
    }

    // ---------------- C: rules x URLs
    let n_c = 700 * a.scale;
    for _ in 0..n_c {
        let rule = rule_line(&mut r);
        let url = url_line(&mut r, &rule);
        if !rule.is_ascii() || !url.is_ascii() || rule.contains('$') {
            cs.stat("C_skipped_non_ascii_or_dollar");
            continue;
        }
        let e = match eval(&rule, &url) {
            Ok(e) => e,
            Err(w) => {
                cs.stat(&format!("C_not_evaluable_{}", w.split(':').next().unwrap_or("")));
                continue;
            }
        };
        if e.filter.len() > 1 {
            continue;
        }
        // implementation-side consistency: matches = options (scheme only here) && check_pattern
        sm.oracle_evaluations += 1;
        if e.matches != (e.pattern_ok && scheme_ok(e.mask, &e.url)) {
            sm.failure(None, &format!("matches {} but check_pattern {} and scheme bits {}", e.matches, e.pattern_ok, scheme_ok(e.mask, &e.url)), json!({"rule": rule, "url": url}));
        }
        oracle(&mut sm, &mut ostats, &rule, &url, &e);
        let desc = json!({"rule": rule, "url": e.url, "hostname": e.host, "mask": e.mask, "filter": e.filter, "filter_hostname": e.hostname,
                          "regex": e.regex_text, "impl_check_pattern": e.pattern_ok, "impl_matches": e.matches});
        let hn = e.mask & NetworkFilterMask::IS_HOSTNAME_ANCHOR.bits() != 0;
        let nt = e.pattern_ok || (hn && e.hostname.as_ref().map(|h| !h.is_empty() && e.host.contains(h.as_str())).unwrap_or(false));
        cs.stat(if e.pattern_ok { "C_pattern_matches" } else { "C_pattern_no_match" });
        if e.regex_text.is_some() {
            cs.stat("C_regex_rule");
        }
        if hn {
            cs.stat("C_hostname_anchored");
        }
        if degenerate(&rule) {
            cs.stat("C_degenerate_text");
        }
        if host_right_pipe(&rule) {
            cs.stat("C_f22_text");
        }
        let filt = coq_filter(&e);
        let hst = copt(&e.hostname, |h| hxs(h));
        // fields against the parser model and the declarative reading of the text
        let complete = e.mask & NetworkFilterMask::IS_COMPLETE_REGEX.bits() != 0;
        cs.case(
            format!("fields_agree {l} {m} {f} {h} && text_tie {l} {m} {f} {h}", l = hxs(&rule), m = cn(e.mask), f = filt, h = hst),
            json!({"what": "parse fields", "case": desc}),
            !complete,
        );
        // check_pattern on those fields; regex answers from the regex crate (by haystack length)
        let lens: Vec<String> = e.regex_lens.iter().map(|k| cn(*k)).collect();
        cs.case(
            format!(
                "Bool.eqb (check_pattern (fun _ => {ok}) (fun _ s => len_in s [{lens}]) {m} {fs} {h} {rq}) {got}",
                ok = cbool(e.regex_ok), lens = lens.join("; "), m = cn(e.mask),
                fs = clist(&e.filter, |s| hxs(s)), h = hst, rq = coq_req(&e), got = cbool(e.pattern_ok)
            ),
            json!({"what": "check_pattern", "case": desc}),
            nt,
        );
        // L0 on the text against the implementation
        if let Some(hs) = e.hs {
            cs.case(
                format!("text_ref_agrees {} {} {} {} {} {} {}", hxs(&rule), cn(e.mask), filt, hst, coq_req(&e), cnat(hs), cbool(e.pattern_ok)),
                json!({"what": "ref_match(ast_of_text)", "host_offset": hs, "case": desc}),
                nt && !degenerate(&rule),
            );
        }
    }

    // ---------------- oracle: exhaustive sweep of short patterns over a small alphabet
    sweep(&mut sm, &mut ostats, if a.tier == "thorough" { 5 } else { 3 });
    for (k, v) in ostats {
        cs.stats.insert(k, v);
    }
    for (rule, url, a, b) in DISCARD_MISMATCH.lock().unwrap().iter().take(20) {
        sm.failure(None, &format!("rule {:?} on {:?}: matches = {} on the first evaluation and {} after its compiled regex was discarded (discard policy) and built again", rule, url, a, b), json!({"rule": rule, "url": url}));
    }
    cs.finish();
    sm.write(&a.out, &cs);
}
