// temporary probe (replaced below)
use adblock::Engine;
fn vm(k: &str) -> u64 {
    let s = std::fs::read_to_string("/proc/self/status").unwrap_or_default();
    for l in s.lines() {
        if l.starts_with(k) {
            return l.split_whitespace().nth(1).and_then(|x| x.parse().ok()).unwrap_or(0);
        }
    }
    0
}
fn main() {
    let rules = vec![
        "||ads.net^", "ad/foo$script,domain=a.com|~b.com", "@@||x.com^$generichide", "||r.com^$redirect=noop.js", "||c.com^$csp=script-src 'none'",
        "||t.com^$tag=t1", "/adv*x/$important", "||p.com^$removeparam=utm", "a.com##.ad", "a.com#@#.ad2", "a.com##+js(foo, bar)", "a.com#@#+js(foo)",
        "##.cls", "###id1", "##.cls > a", "a.com##.x:style(color: red)", "a.com##div:has-text(x)", "a.com#@#div:has-text(y)", "##a[href]",
    ];
    let e = Engine::from_rules_parametrised(rules.iter(), Default::default(), true, true);
    println!("{}", adblock::verif_hooks::wire_json(&e));
    let b = e.serialize_raw().unwrap();
    println!("len {}", b.len());
    let hex: String = b.iter().map(|x| format!("{:02x}", x)).collect();
    println!("{}", hex);
    for (name, len) in [("16M", 0x0100_0000u32), ("256M", 0x1000_0000u32)] {
        let mut h = vec![0xd1, 0xd9, 0x3a, 0xaf, 0x00, 0xdb];
        h.extend_from_slice(&len.to_be_bytes());
        let before = vm("VmHWM:");
        let t = std::time::Instant::now();
        let mut e2 = Engine::new(true);
        let r = e2.deserialize(&h);
        println!("{} -> {:?} in {:?}; VmHWM {} -> {} kB", name, r.is_ok(), t.elapsed(), before, vm("VmHWM:"));
    }
}
