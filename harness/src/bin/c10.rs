//! C10 — loading corrupt or hostile serialized data fails cleanly and atomically.
//!
//! Fault enumeration against the real crate (this is the evidence for the decoder, which the Coq
//! model does not contain): for a few small valid buffers every prefix, every single-bit flip,
//! byte substitutions at every offset, random multi-byte corruption, header variants and arbitrary
//! byte strings are loaded into a pre-populated engine under `catch`, with a per-case time and
//! peak-RSS check.  After a failed load the engine must answer a fixed query set exactly as before
//! and re-serialize to the same bytes; after a successful load every query kind and
//! `serialize_raw` must run without a panic.
//! Correspondence: `header_dispatch` (C10_Model.v) vs `verif_hooks::decode_class` on the same
//! bytes (class and, through the decoder outcome, the payload offset), and the matcher skeleton on
//! decoded rules that no parser would produce.
#[path = "../wire_common.rs"]
mod wire_common;
use adblock::request::Request;
use adblock::verif_hooks::decode_class;
use adblock::Engine;
use implrun::*;
use serde_json::json;
use std::time::Instant;
use wire_common::*;

const SUBST: &[u8] = &[0x00, 0x01, 0x7f, 0x80, 0x8f, 0x90, 0x9f, 0xa0, 0xbf, 0xc0, 0xc1, 0xc2, 0xc4, 0xc6, 0xc7, 0xca, 0xcc, 0xcf, 0xd0, 0xd4, 0xd9, 0xda, 0xdb, 0xdc, 0xdd, 0xde, 0xdf, 0xe0, 0xff];
const MAGIC: [u8; 4] = [0xd1, 0xd9, 0x3a, 0xaf];
const GZ: [u8; 10] = [31, 139, 8, 0, 0, 0, 0, 0, 0, 255];
/// a load that raises the peak RSS by more than this (kB) over the input size is class F25
const ALLOC_LIMIT_KB: u64 = 32 * 1024;
const SLOW_MS: u128 = 1500;
/// a single allocation request above this (bytes) plus 64 times the input size, made while loading,
/// is "allocating what a length prefix announces" whether or not the memory is ever touched
const REQUEST_LIMIT: usize = 16 << 20;

/// The allocator of this binary: the system allocator, remembering the largest single request.
struct Counting;
static MAX_REQUEST: std::sync::atomic::AtomicUsize = std::sync::atomic::AtomicUsize::new(0);
unsafe impl std::alloc::GlobalAlloc for Counting {
    unsafe fn alloc(&self, l: std::alloc::Layout) -> *mut u8 {
        MAX_REQUEST.fetch_max(l.size(), std::sync::atomic::Ordering::Relaxed);
        std::alloc::System.alloc(l)
    }
    unsafe fn alloc_zeroed(&self, l: std::alloc::Layout) -> *mut u8 {
        MAX_REQUEST.fetch_max(l.size(), std::sync::atomic::Ordering::Relaxed);
        std::alloc::System.alloc_zeroed(l)
    }
    unsafe fn dealloc(&self, p: *mut u8, l: std::alloc::Layout) {
        std::alloc::System.dealloc(p, l)
    }
    unsafe fn realloc(&self, p: *mut u8, l: std::alloc::Layout, n: usize) -> *mut u8 {
        MAX_REQUEST.fetch_max(n, std::sync::atomic::Ordering::Relaxed);
        std::alloc::System.realloc(p, l, n)
    }
}
#[global_allocator]
static ALLOCATOR: Counting = Counting;

fn base_lists(r: &mut Rng) -> Vec<Vec<String>> {
    let s = |v: &[&str]| v.iter().map(|x| x.to_string()).collect::<Vec<_>>();
    vec![
        s(&["||ads.net^", "ad/foo$script,domain=a.com|~b.com", "@@||x.com^$generichide", "||r.com^$redirect=noop.js",
            "||c.com^$csp=script-src 'none'", "||t.com^$tag=t1", "/adv[0-9]x/$important", "a.com##.ad", "a.com#@#.ad2",
            "a.com##+js(foo, bar)", "a.com#@#+js(set)", "##.cls", "###id1", "##.cls > a", "a.com##.x:style(color: red)"]),
        s(&["|https://foo.com/ads|", "banner*img^$image,third-party", "@@||foo.com/ok^", "||example.com^$tag=t2,script",
            "foo.com,bar.foo.com##.box", "example.*##.ent", "~x.com##.notx", "a.com##div:has-text(x)", "##a[href*=\"ads\"]",
            "||x.com/p$redirect-rule=1x1.gif", "track", "pixel"]),
        rule_list(r, 6, 5),
    ]
}
fn pre_rules() -> Vec<String> {
    ["||pre.net^", "||tagged.net^$tag=t1", "pre.net##.pre", "##.cls", "||pre.net/r$redirect=noop.js", "pre.net##+js(foo, 1)", "||pre.net^$csp=img-src *"]
        .iter().map(|s| s.to_string()).collect()
}
fn pre_engine() -> Engine {
    let mut e = build(&pre_rules(), true, true, 0);
    e.use_tags(&["t1", "zz"]);
    e
}
fn fixed_queries() -> Vec<Query> {
    let q = |u: &str, s: &str, t: &str| Query { url: u.into(), source: s.into(), ty: t.into() };
    vec![
        q("https://pre.net/x", "https://a.com/", "script"), q("https://tagged.net/x", "https://a.com/", "image"),
        q("https://pre.net/r", "https://a.com/", "script"), q("https://pre.net/", "https://pre.net/", "document"),
        q("https://ads.net/ad/foo", "https://a.com/", "script"), q("https://sub.r.com/a.js", "https://a.com/", "script"),
        q("https://c.com/", "https://c.com/", "document"), q("https://t.com/adv1x/", "https://x.com/", "image"),
        q("https://foo.com/ads", "https://example.com/", "image"), q("https://example.com/track/pixel/banner-img/", "https://a.com", "image"),
        q("https://x.com/p", "https://a.com", "image"), q("http://localhost/adv7x/", "", "other"),
    ]
}

/// a str/bin/ext header announcing at least this many bytes beyond the end of the input
const PREALLOC_GUARD: u64 = 1 << 20;
/// how many of the guarded inputs are loaded for real (announced length <= 512 MiB), measured
const PREALLOC_REAL_RUNS: u64 = 3;

struct Ctx {
    alloc_hits: u64,
    guard: bool,
    force: bool,
    guarded: u64,
    guarded_run: u64,
    guarded_max: u64,
    pre: Engine,
    qs: Vec<Query>,
    base_answers: Vec<String>,
    base_bytes: Vec<u8>,
    hwm: u64,
    hwm_ok: bool,
    max_ms: u128,
    max_alloc_kb: u64,
    max_request: usize,
    request_hits: u64,
    out: std::path::PathBuf,
}
#[derive(Default)]
struct Tally {
    ok: u64,
    err: u64,
    classes: std::collections::BTreeMap<String, u64>,
}

/// One load of `bytes` into the pre-populated engine. Returns the decode class.
fn attempt(cx: &mut Ctx, sm: &mut Summary, t: &mut Tally, bytes: &[u8], what: &str) -> &'static str {
    if bytes.len() >= 5 && bytes[..4] == MAGIC && bytes[4] == 0 {
        if let (true, Some((_, l))) = (cx.guard, announced_overrun(bytes, 5, PREALLOC_GUARD)) {
            // only when the probe at the start showed that the decoder allocates announced lengths
            // (F25 regression, already reported as a violation): loading this would allocate and
            // zero `l` bytes. A few are loaded for real; the rest are counted, not run.
            cx.guarded += 1;
            cx.guarded_max = cx.guarded_max.max(l);
            if !cx.force && (cx.guarded_run >= PREALLOC_REAL_RUNS || l < (64 << 20) || l > (512 << 20) || !cx.hwm_ok) {
                return "guarded";
            }
            cx.guarded_run += 1;
            reset_hwm();
            cx.hwm = vm_kb("VmHWM:");
        }
    }
    sm.oracle_evaluations += 1;
    let replay = json!({"kind": "load", "bytes": hex(bytes), "what": what});
    // an input with a 32-bit length prefix may make a decoder ask for more memory than the machine
    // grants (the process aborts): leave the input behind for the check to report
    let risky = bytes.iter().any(|b| matches!(b, 0xc6 | 0xc9 | 0xdb | 0xdd | 0xdf));
    if risky {
        crash_guard(&cx.out, "Engine::deserialize of this buffer", &replay);
    }
    MAX_REQUEST.store(0, std::sync::atomic::Ordering::Relaxed);
    // a first, stateless decode (also under test: must not panic)
    let class = {
        let b = bytes.to_vec();
        match catch(move || decode_class(&b)) {
            Ok(c) => c,
            Err(p) => {
                sm.failure(None, &format!("decoding panicked: {}", p), replay.clone());
                "panic"
            }
        }
    };
    let t0 = Instant::now();
    let pre = std::mem::replace(&mut cx.pre, Engine::new(true));
    let res = catch(std::panic::AssertUnwindSafe(move || {
        let mut e = pre;
        let r = e.deserialize(bytes).map_err(|x| format!("{:?}", x));
        (e, r)
    }));
    let ms = t0.elapsed().as_millis();
    cx.max_ms = cx.max_ms.max(ms);
    if ms > 100 && std::env::var("C10_TRACE").is_ok() {
        eprintln!("slow load {} ms: {} len={} head={}", ms, what, bytes.len(), hex(&bytes[..bytes.len().min(16)]));
    }
    let req = MAX_REQUEST.load(std::sync::atomic::Ordering::Relaxed);
    if risky {
        crash_guard_clear(&cx.out);
    }
    cx.max_request = cx.max_request.max(req);
    if req > REQUEST_LIMIT + 64 * bytes.len() {
        cx.request_hits += 1;
        if cx.request_hits <= 20 {
            sm.failure(None, &format!("loading {} bytes made a single allocation request of {} bytes: the decoder asks for what a length prefix announces", bytes.len(), req), replay.clone());
        }
    }
    let hwm = if cx.hwm_ok { vm_kb("VmHWM:") } else { 0 };
    let grown = hwm.saturating_sub(cx.hwm);
    cx.max_alloc_kb = cx.max_alloc_kb.max(grown);
    if grown > ALLOC_LIMIT_KB + bytes.len() as u64 / 1024 {
        // F25 (fixed in /repo by 20ac931): a regression is a violation
        cx.alloc_hits += 1;
        sm.failure(None,
            &format!("loading {} bytes raised the peak RSS by {} kB ({} ms): the decoder allocates what a length prefix announces (regression of F25)", bytes.len(), grown, ms), replay.clone());
        reset_hwm();
        cx.hwm = vm_kb("VmHWM:");
    } else {
        cx.hwm = cx.hwm.max(hwm);
        if ms > SLOW_MS {
            sm.failure(None, &format!("load took {} ms", ms), replay.clone());
        }
    }
    let (e, r) = match res {
        Err(p) => {
            sm.failure(None, &format!("deserialize panicked: {}", p), replay);
            cx.pre = pre_engine();
            return class;
        }
        Ok(x) => x,
    };
    *t.classes.entry(class.to_string()).or_insert(0) += 1;
    match r {
        Err(err) => {
            t.err += 1;
            if class == "ok" {
                sm.failure(None, &format!("decode_class says ok but Engine::deserialize returned {}", err), replay.clone());
            }
            // atomicity: same answers, same bytes, same tags
            let a = catch(std::panic::AssertUnwindSafe(|| (answers(&e, &cx.qs), e.serialize_raw().ok(), e.tag_exists("t1"), e.tag_exists("zz"))));
            match a {
                Ok((ans, Some(b), t1, zz)) if ans == cx.base_answers && b == cx.base_bytes && t1 && zz => cx.pre = e,
                Ok((ans, b, t1, zz)) => {
                    let first = ans.iter().zip(cx.base_answers.iter()).position(|(x, y)| x != y);
                    sm.failure(None, &format!("failed load ({}) changed the engine: first differing answer {:?}, bytes equal {}, tags {} {}",
                        err, first.map(|i| (&ans[i], &cx.base_answers[i])), b.as_deref() == Some(&cx.base_bytes[..]), t1, zz), replay);
                    cx.pre = pre_engine();
                }
                Err(p) => {
                    sm.failure(None, &format!("engine panics after a failed load ({}): {}", err, p), replay);
                    cx.pre = pre_engine();
                }
            }
        }
        Ok(()) => {
            t.ok += 1;
            if class != "ok" {
                sm.failure(None, &format!("Engine::deserialize succeeded but decode_class says {}", class), replay.clone());
            }
            let t1 = Instant::now();
            let a = catch(std::panic::AssertUnwindSafe(|| {
                let ans = answers(&e, &cx.qs);
                let b = e.serialize_raw().map_err(|x| format!("{:?}", x));
                (ans.len(), b, e.tag_exists("t1"), e.tag_exists("zz"))
            }));
            let ms2 = t1.elapsed().as_millis();
            cx.max_ms = cx.max_ms.max(ms2);
            match a {
                Err(p) => sm.failure(None, &format!("engine panics after a successful load of corrupt data: {}", p), replay),
                Ok((_, Err(s), _, _)) => sm.failure(None, &format!("serialize_raw fails after a successful load: {}", s), replay),
                Ok((_, Ok(b), t1, zz)) => {
                    if !(t1 && zz) {
                        sm.failure(None, "enabled tags were lost by a successful load", replay.clone());
                    }
                    if ms2 > SLOW_MS {
                        sm.failure(None, &format!("queries after load took {} ms", ms2), replay.clone());
                    }
                    // the re-serialized bytes load again (the engine's own output is never hostile)
                    let mut e2 = Engine::new(true);
                    if catch(std::panic::AssertUnwindSafe(|| e2.deserialize(&b).is_ok())) != Ok(true) {
                        sm.failure(None, "bytes re-serialized after a successful load do not load", replay);
                    }
                }
            }
            cx.pre = pre_engine();
        }
    }
    class
}

fn class_code(c: &str) -> u8 {
    match c {
        "ok" | "rmp" | "guarded" => 0,
        "version" => 1,
        "noheader" => 2,
        "legacy" => 3,
        _ => 4,
    }
}

fn header_case(cs: &mut Cases, bytes: &[u8], class: &str, nontrivial: bool) {
    let shown = if bytes.len() > 48 { &bytes[..48] } else { bytes };
    let expr = format!(
        "N.eqb (class_code (header_dispatch {b})) {c} && bytes_eqb (dispatch_payload (header_dispatch {b})) {p}",
        b = hx(bytes), c = cn(class_code(class)),
        p = if class_code(class) == 0 { format!("(drop 5 {})", hx(bytes)) } else { "[]".to_string() }
    );
    cs.stat(&format!("class_{}", class));
    cs.case(expr, json!({"bytes_prefix": hex(shown), "len": bytes.len(), "impl_class": class}), nontrivial);
}

/// Replace every occurrence of `from` by `to` (None if there is none).
fn surgery(b: &[u8], from: &[u8], to: &[u8]) -> Option<Vec<u8>> {
    let mut o = vec![];
    let mut i = 0;
    let mut hit = false;
    while i < b.len() {
        if b[i..].starts_with(from) {
            o.extend_from_slice(to);
            i += from.len();
            hit = true;
        } else {
            o.push(b[i]);
            i += 1;
        }
    }
    if hit { Some(o) } else { None }
}

fn main() {
    let a = args();
    let mut r = Rng::new(a.seed);
    let mut sm = Summary::default();
    let qs = fixed_queries();
    let pre = pre_engine();
    let base_answers = answers(&pre, &qs);
    let base_bytes = pre.serialize_raw().unwrap();
    let hwm_ok = reset_hwm() && vm_kb("VmHWM:") > 0;
    let mut cx = Ctx { alloc_hits: 0, guard: true, force: false, guarded: 0, guarded_run: 0, guarded_max: 0, pre, qs, base_answers, base_bytes, hwm: vm_kb("VmHWM:"), hwm_ok, max_ms: 0, max_alloc_kb: 0, max_request: 0, request_hits: 0, out: a.out.clone() };
    let mut tally = Tally::default();

    if let Some(p) = &a.replay {
        let v: serde_json::Value = serde_json::from_str(&std::fs::read_to_string(p).unwrap()).unwrap();
        let bytes = unhex(v["replay"]["bytes"].as_str().unwrap_or(""));
        cx.force = true;
        let class = attempt(&mut cx, &mut sm, &mut tally, &bytes, "replay");
        println!("bytes={} class={} ok={} err={} max_ms={} max_alloc_kb={}", bytes.len(), class, tally.ok, tally.err, cx.max_ms, cx.max_alloc_kb);
        for f in sm.oracle_failures.iter().chain(sm.known_hits.iter()) {
            println!("{}", f["what"]);
        }
        if !sm.oracle_failures.is_empty() || !sm.known_hits.is_empty() {
            println!("VIOLATION property=C10 replay={}", p.display());
            std::process::exit(1);
        }
        return;
    }

    let mut cs = Cases::new(&a.out, "Generated Wire_Model C10_Model Msgpack_Model");
    sm.rule = "fault enumeration: every prefix, every single-bit flip and 29 byte substitutions at every offset of small valid buffers, random multi-byte corruption, header variants, arbitrary byte strings; each loaded into a pre-populated engine with tags enabled. Correspondence cases: header_dispatch vs decode_class on header variants and a sample of the corrupted buffers (non-trivial = the bytes start with the magic or the gzip header, or differ from them in one byte), plus decoded rules with the hostname-anchor bit and no hostname".into();

    // ---- F25 probe first: a 10-byte input whose str32 length prefix announces 256 MiB. If the
    // decoder allocates it, inputs of that class are predicted and skipped below (guard on);
    // if it does not (repaired decoder), nothing is skipped.
    if cx.hwm_ok {
        reset_hwm();
        cx.hwm = vm_kb("VmHWM:");
        let mut h = MAGIC.to_vec();
        h.extend_from_slice(&[0x00, 0xdb, 0x10, 0x00, 0x00, 0x00]);
        cx.force = true;
        attempt(&mut cx, &mut sm, &mut tally, &h, "str32 length prefix 256 MiB on a 10-byte input");
        cx.force = false;
        cx.guard = cx.alloc_hits > 0;
        cx.guarded = 0;
        cx.guarded_run = 0;
    }
    sm.extra.insert("decoder_allocates_announced_length".into(), json!(cx.guard));

    // ---- buffers
    let lists = base_lists(&mut r);
    let mut buffers: Vec<Vec<u8>> = vec![];
    for (i, l) in lists.iter().enumerate() {
        let e = build(l, i % 2 == 0, i != 1, 0);
        buffers.push(e.serialize_raw().unwrap());
    }
    if a.scale > 1 {
        for i in 0..12 {
            let l = rule_list(&mut r, 4 + i % 5, 3 + i % 4);
            buffers.push(build(&l, i % 2 == 0, i % 3 != 0, 0).serialize_raw().unwrap());
        }
    }
    sm.extra.insert("buffer_sizes".into(), json!(buffers.iter().map(|b| b.len()).collect::<Vec<_>>()));

    // ---- the decoder MODEL (Msgpack_Model.decode_wire_bytes: header, msgpack tree, typed layer)
    // against the real loader, on the classes of input the codec theorems speak about: the crate's
    // own output, its truncations, own output followed by junk, and the same value with a
    // non-minimal array header (rmp accepts every width).  (On arbitrary corruptions the model is
    // only a sub-function of the real decoder — it refuses bin-for-str, signed formats, structs as
    // maps — so those are not compared.)
    {
        let loads = |b: &[u8]| -> bool {
            let b = b.to_vec();
            catch(move || Engine::new(true).deserialize(&b).is_ok()).unwrap_or(false)
        };
        let mut dcase = |cs: &mut Cases, b: &[u8], kind: &str| {
            let ok = loads(b);
            cs.stat(&format!("decoder_model_{}_{}", kind, if ok { "loads" } else { "fails" }));
            let shown = if b.len() > 32 { &b[..32] } else { b };
            cs.case(format!("Bool.eqb (match decode_wire_bytes {} with Some _ => true | None => false end) {}", hx(b), cbool(ok)),
                json!({"kind": "decoder_model", "class": kind, "len": b.len(), "bytes_prefix": hex(shown), "impl_loads": ok}), true);
        };
        for buf in buffers.iter().take(3) {
            dcase(&mut cs, buf, "own_output");
            let n = buf.len();
            let step = (n / 24).max(1);
            let mut cuts: Vec<usize> = (0..n).step_by(step).collect();
            cuts.extend((n.saturating_sub(6))..n);
            cuts.extend(0..7.min(n));
            cuts.sort();
            cuts.dedup();
            for k in cuts {
                dcase(&mut cs, &buf[..k], "truncated");
            }
            for junk in [&[0u8][..], &[0xc1, 0xff, 0x00][..], &buf[..9.min(n)]] {
                let mut b = buf.clone();
                b.extend_from_slice(junk);
                dcase(&mut cs, &b, "trailing_bytes");
            }
            // top-level struct array: fixarray -> array16 / array32
            if n > 8 && buf[5] == 0xdc {
                // array16 -> array32
                let mut b = buf[..5].to_vec();
                b.extend_from_slice(&[0xdd, 0, 0, buf[6], buf[7]]);
                b.extend_from_slice(&buf[8..]);
                dcase(&mut cs, &b, "wider_array_header");
            }
            if n > 5 && buf[5] & 0xf0 == 0x90 {
                let k = buf[5] & 0x0f;
                for hdr in [vec![0xdc, 0, k], vec![0xdd, 0, 0, 0, k]] {
                    let mut b = buf[..5].to_vec();
                    b.extend_from_slice(&hdr);
                    b.extend_from_slice(&buf[6..]);
                    dcase(&mut cs, &b, "wider_array_header");
                }
            }
        }
    }

    // ---- header variants (all of them are correspondence cases)
    let mut variants: Vec<Vec<u8>> = vec![vec![], MAGIC.to_vec(), GZ.to_vec(), vec![0xd1], MAGIC[..3].to_vec(), GZ[..9].to_vec()];
    for v in 0..=255u8 {
        let mut b = MAGIC.to_vec();
        b.push(v);
        variants.push(b.clone());
        b.extend_from_slice(&buffers[0][5..]);
        variants.push(b);
    }
    for i in 0..4 {
        for bit in 0..8 {
            let mut b = buffers[0].clone();
            b[i] ^= 1 << bit;
            variants.push(b);
        }
    }
    for i in 0..10 {
        let mut b = GZ.to_vec();
        b[i] ^= 1 << r.below(8);
        b.extend_from_slice(&[1, 2, 3]);
        variants.push(b);
    }
    let mut g = GZ.to_vec();
    g.extend_from_slice(&buffers[0]);
    variants.push(g);
    let mut m2 = MAGIC.to_vec();
    m2.extend_from_slice(&GZ);
    variants.push(m2);
    variants.push([&MAGIC[..], &[0u8][..]].concat());
    variants.push([&MAGIC[..], &[0u8, 0xc0][..]].concat());
    for v in &variants {
        let c = attempt(&mut cx, &mut sm, &mut tally, v, "header variant");
        header_case(&mut cs, v, c, true);
    }

    // ---- enumeration over the buffers
    let tstart = Instant::now();
    let trace = std::env::var("C10_TRACE").is_ok();
    let mut sampled = 0usize;
    for (bi, buf) in buffers.iter().enumerate() {
        let n = buf.len();
        // the untouched buffer loads
        if attempt(&mut cx, &mut sm, &mut tally, buf, "valid buffer") != "ok" {
            sm.failure(None, "a valid buffer does not load", json!({"kind": "load", "bytes": hex(buf)}));
        }
        if trace { eprintln!("buffer {} len {} at {:?} loads {}", bi, n, tstart.elapsed(), tally.ok + tally.err); }
        for k in 0..n {
            let c = attempt(&mut cx, &mut sm, &mut tally, &buf[..k], "prefix");
            if k < 12 || r.chance(1, 40) {
                header_case(&mut cs, &buf[..k], c, k >= 4);
                sampled += 1;
            }
        }
        if trace { eprintln!("  prefixes done at {:?} loads {}", tstart.elapsed(), tally.ok + tally.err); }
        for i in 0..n {
            for bit in 0..8 {
                let mut b = buf.clone();
                b[i] ^= 1 << bit;
                let c = attempt(&mut cx, &mut sm, &mut tally, &b, "bit flip");
                if i < 6 || r.chance(1, 400) {
                    header_case(&mut cs, &b, c, true);
                    sampled += 1;
                }
            }
        }
        if trace { eprintln!("  flips done at {:?} loads {}", tstart.elapsed(), tally.ok + tally.err); }
        let subst: &[u8] = if bi < 2 || a.scale > 1 { SUBST } else { &SUBST[..12] };
        for i in 0..n {
            for &v in subst {
                if buf[i] == v {
                    continue;
                }
                let mut b = buf.clone();
                b[i] = v;
                let c = attempt(&mut cx, &mut sm, &mut tally, &b, "byte substitution");
                if r.chance(1, 1500) {
                    header_case(&mut cs, &b, c, true);
                    sampled += 1;
                }
            }
        }
        // hostile CONTENT inside a valid envelope: every text run of the buffer (selectors, scriptlet
        // arguments, hostnames, the JSON of procedural filters) overwritten in place, length preserved, by
        // texts that are well-formed msgpack strings but not what the loader's consumers expect
        {
            let mut runs: Vec<(usize, usize)> = vec![];
            let mut i = 5;
            while i < buf.len() {
                if buf[i] >= 0x20 && buf[i] < 0x7f {
                    let st = i;
                    while i < buf.len() && buf[i] >= 0x20 && buf[i] < 0x7f { i += 1; }
                    if i - st >= 4 { runs.push((st, i)); }
                } else {
                    i += 1;
                }
            }
            let fill = |n: usize, head: &str| -> Vec<u8> {
                let mut v: Vec<u8> = head.bytes().take(n).collect();
                while v.len() < n { v.push(b' '); }
                v
            };
            // (a str8 / str16 length byte may itself be printable and then looks like the first byte of
            // the run: also try the run without its first one or two bytes)
            let runs: Vec<(usize, usize)> = runs.into_iter().flat_map(|(st, en)| (0..3usize).filter(move |k| en - st >= 4 + k).map(move |k| (st + k, en))).collect();
            // a string shortened to the EMPTY string (still a well-formed buffer: strings are
            // self-delimiting): fixstr and str8 headers directly in front of a run
            for &(st, en) in runs.iter() {
                let n = en - st;
                let cut: Option<(usize, Vec<u8>)> = if st >= 1 && buf[st - 1] == 0xa0 | (n as u8) && n <= 31 {
                    Some((st - 1, vec![0xa0]))
                } else if st >= 2 && buf[st - 2] == 0xd9 && buf[st - 1] as usize == n {
                    Some((st - 2, vec![0xa0]))
                } else { None };
                if let Some((at, hdr)) = cut {
                    let mut b = buf[..at].to_vec();
                    b.extend_from_slice(&hdr);
                    b.extend_from_slice(&buf[en..]);
                    attempt(&mut cx, &mut sm, &mut tally, &b, "string replaced by the empty string");
                }
            }
            for (st, en) in runs {
                let n = en - st;
                for head in ["{\"selector\":[]}", "{\"selector\":[{}]}", "{\"selector\":[],\"action\":null}", "{}", "[]", "null", "", "+js(", "\\", "\"", ",,,,", "{{1}}", "*", "||", "#@#", ":style(", "\u{0}"] {
                    let mut b = buf.clone();
                    b[st..en].copy_from_slice(&fill(n, head));
                    attempt(&mut cx, &mut sm, &mut tally, &b, "text run overwritten in place");
                }
                // also only the first byte / the last byte of the run
                for (pos, c) in [(st, b' '), (st, b'{'), (en - 1, b'\\'), (en - 1, b'(')] {
                    let mut b = buf.clone();
                    b[pos] = c;
                    attempt(&mut cx, &mut sm, &mut tally, &b, "text run edge byte replaced");
                }
            }
        }
        // random multi-byte corruption, insertions and deletions
        for _ in 0..(600 * a.scale) {
            let mut b = buf.clone();
            match r.below(4) {
                0 => {
                    for _ in 0..r.range(2, 6) {
                        let i = r.below(b.len());
                        b[i] = r.next() as u8;
                    }
                }
                1 => {
                    let i = r.range(5, b.len() - 1);
                    let k = r.range(1, 8).min(b.len() - i);
                    b.drain(i..i + k);
                }
                2 => {
                    let i = r.range(5, b.len());
                    for _ in 0..r.range(1, 6) {
                        b.insert(i, r.pick(SUBST));
                    }
                }
                _ => {
                    let i = r.range(5, b.len() - 1);
                    let j = r.range(5, b.len() - 1);
                    let k = r.range(1, 16).min(b.len() - i.max(j));
                    let chunk: Vec<u8> = b[j..j + k].to_vec();
                    b[i..i + k].copy_from_slice(&chunk);
                }
            }
            attempt(&mut cx, &mut sm, &mut tally, &b, "random corruption");
        }
    }
    // ---- arbitrary byte strings (with and without a valid header)
    for i in 0..(1500 * a.scale) {
        let n = r.range(0, 40);
        let mut b: Vec<u8> = if i % 2 == 0 { [&MAGIC[..], &[0u8][..]].concat() } else { vec![] };
        for _ in 0..n {
            // avoid 32-bit length markers with huge lengths here: they are probed separately below
            let x = if r.chance(1, 3) { r.pick(SUBST) } else { r.next() as u8 };
            b.push(x);
        }
        let c = attempt(&mut cx, &mut sm, &mut tally, &b, "arbitrary bytes");
        if i % 10 == 0 {
            header_case(&mut cs, &b, c, i % 2 == 0);
        }
    }

    // ---- decoded rules no parser produces (F11): hostname-anchor bit without hostname, 1-byte complete regex
    let shapes: &[(&str, &str, &str)] = &[
        ("||ads.net^", "https://ads.net/x", "script"), ("||ads.net/path", "https://ads.net/path", "script"),
        ("||ads.net^*/x.js", "https://ads.net/a/x.js", "script"), ("||ads.net/p|", "https://ads.net/p", "image"),
        ("||ads.net^$important", "https://ads.net/x", "script"), ("@@||ads.net^", "https://ads.net/x", "script"),
        ("||ads.net^$csp=img-src *", "https://ads.net/", "document"), ("||ads.net^$redirect=noop.js", "https://ads.net/x.js", "script"),
    ];
    for (rule, url, ty) in shapes {
        let e = build(&[rule.to_string(), "||other.com^".to_string()], false, false, 0);
        let b = e.serialize_raw().unwrap();
        let Some(b2) = surgery(&b, &[&[0xa7u8][..], b"ads.net"].concat(), &[0xc0]) else {
            sm.failure(None, "surgery: hostname field not found", json!({"rule": rule}));
            continue;
        };
        sm.oracle_evaluations += 1;
        let res = catch(std::panic::AssertUnwindSafe(|| {
            let mut e2 = Engine::new(false);
            e2.use_resources(resources());
            let loaded = e2.deserialize(&b2).is_ok();
            let req = Request::new(url, "https://a.com/", ty).unwrap();
            let before = e.check_network_request(&req);
            let after = e2.check_network_request(&req);
            let csp = e2.get_csp_directives(&req);
            let d = adblock::verif_hooks::dump_engine_blocker(&e2);
            let f = d.lists.iter().flat_map(|(_, l)| l.iter()).flat_map(|(_, b)| b.iter()).find(|f| f.raw_line.is_none() && f.hostname.is_none() && f.mask & (1 << 21) != 0).cloned();
            (loaded, before.matched || before.exception.is_some() || before.redirect.is_some(), after.matched || after.exception.is_some() || after.redirect.is_some() || csp.is_some(), f)
        }));
        match res {
            Err(p) => sm.failure(None, &format!("decoded rule without hostname panics the matcher: {}", p), json!({"kind": "load", "bytes": hex(&b2), "rule": rule, "url": url})),
            Ok((loaded, before, after, f)) => {
                if !loaded {
                    sm.failure(None, "surgery buffer does not load", json!({"kind": "load", "bytes": hex(&b2)}));
                    continue;
                }
                let Some(f) = f else {
                    sm.failure(None, "no anchored rule without hostname found after surgery", json!({"rule": rule}));
                    continue;
                };
                let expr = format!(
                    "res_eqb Bool.eqb (check_pattern (fun _ _ _ _ => true) {} {} None) (Ok {})",
                    cn(f.mask), cstrs(&f.filter), cbool(after)
                );
                cs.stat("anchored_without_hostname");
                cs.case(expr, json!({"rule": rule, "url": url, "matched_before_surgery": before, "matched_after": after, "mask": f.mask}), before);
                if after {
                    sm.failure(None, "a decoded hostname-anchored rule without hostname matched a request", json!({"kind": "load", "bytes": hex(&b2), "rule": rule, "url": url}));
                }
            }
        }
    }
    {
        // complete regex with a 1-byte pattern: "/a1/" -> "/"
        let e = build(&["/a1/$script".to_string()], false, false, 0);
        let b = e.serialize_raw().unwrap();
        for to in [&[0xa1u8, b'/'][..], &[0xa0u8][..], &[0xa2u8, b'/', b'/'][..], &[0xa2u8, b'/', b'a'][..]] {
            if let Some(b2) = surgery(&b, &[&[0xa4u8][..], b"/a1/"].concat(), to) {
                sm.oracle_evaluations += 1;
                let res = catch(std::panic::AssertUnwindSafe(|| {
                    let mut e2 = Engine::new(false);
                    let ok = e2.deserialize(&b2).is_ok();
                    let req = Request::new("https://x.com/a1/", "https://a.com/", "script").unwrap();
                    (ok, e2.check_network_request(&req).matched)
                }));
                if let Err(p) = res {
                    sm.failure(None, &format!("complete-regex rule with a short pattern panics: {}", p), json!({"kind": "load", "bytes": hex(&b2)}));
                }
                let pat = &to[1..];
                let want = if pat.len() >= 2 && pat[0] == b'/' && pat[pat.len() - 1] == b'/' { &pat[1..pat.len() - 1] } else { pat };
                cs.stat("complete_regex_body");
                cs.case(format!("res_eqb str_eqb (complete_regex_body {}) (Ok {})", hx(pat), hx(want)), json!({"pattern": hex(pat)}), true);
            }
        }
    }

    sm.extra.insert("loads".into(), json!(tally.ok + tally.err));
    sm.extra.insert("loads_ok".into(), json!(tally.ok));
    sm.extra.insert("loads_err".into(), json!(tally.err));
    sm.extra.insert("decode_classes".into(), json!(tally.classes));
    sm.extra.insert("guarded_not_loaded_announced_length_over_1MiB".into(), json!(cx.guarded - cx.guarded_run));
    sm.extra.insert("guarded_loaded_and_measured".into(), json!(cx.guarded_run));
    sm.extra.insert("guarded_max_announced_bytes".into(), json!(cx.guarded_max));
    sm.extra.insert("max_case_ms".into(), json!(cx.max_ms as u64));
    sm.extra.insert("max_peak_rss_growth_kb".into(), json!(cx.max_alloc_kb));
    sm.extra.insert("max_single_allocation_request_bytes".into(), json!(cx.max_request));
    sm.extra.insert("loads_with_oversized_allocation_request".into(), json!(cx.request_hits));
    sm.extra.insert("peak_rss_probe_available".into(), json!(cx.hwm_ok));
    sm.extra.insert("header_cases_sampled_from_enumeration".into(), json!(sampled));
    sm.extra.insert("not_covered".into(), json!("no RLIMIT_AS (std only): allocation is observed through VmHWM growth per load and wall time per load; the announced-length probe uses 256 MiB, not 4 GiB; stack overflow on deeply nested input is not provoked beyond what the substitutions produce (rmp-serde limits depth to 1024)"));
    cs.finish();
    sm.write(&a.out, &cs);
}
