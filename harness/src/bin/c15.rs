//! C15 — the injected CSP is the union of the directives of the matching active csp rules minus
//! the excepted directives; nothing under a blanket exception; nothing for other request types.
//! Correspondence: Engine::get_csp_directives vs the Gallina `get_csp_for` (C15_Model.v) on the
//! list of (is_exception, directive) of the csp rules that match per NetworkFilter::matches and
//! whose tag is enabled; plus the type mask of every parsed csp rule vs `csp_type_mask`.
//! Oracle: an independent Rust restatement with BTreeSets, compared as a set of comma-separated
//! items with a duplicate check.
//! Tag state: either installed by one `use_tags` call or reached through a HISTORY of
//! use_tags / enable_tags / disable_tags / serialize+deserialize operations (op language of C07);
//! the expected tag set is plain set algebra, checked after every operation together with
//! `tag_exists` for every tag of the universe; in the Coq case of a history the tag set is computed
//! from the operations inside the Gallina expression and selects the rules handed to `get_csp_for`.
use adblock::filters::network::{NetworkFilter, NetworkFilterMaskHelper, NetworkMatchable};
use adblock::regex_manager::RegexManager;
use adblock::request::Request;
use adblock::Engine;
use implrun::*;
use serde_json::{json, Value};
use std::collections::BTreeSet;

const DIRECTIVES: &[&str] = &[
    "script-src 'none'",
    "img-src *",
    "default-src 'self'",
    "frame-src x.com",
    "script-src 'self' *.foo.com",
    "worker-src 'none'",
    "a",
    "A",
    // directive text with '=' in it (padded hash sources, query strings): pairs that differ only
    // after the first '=' of the directive
    "script-src 'sha256-q1w='",
    "script-src 'sha256-q1w=='",
    "report-uri /r?site=shop&v=2",
    "report-uri /r?site=news&v=2",
];
const RHOSTS: &[&str] = &["foo.com", "ads.net", "example.com", "sub.example.com"];
const PATHS: &[&str] = &["ads", "foo", "banner", "ads/foo", "x"];
/// Tags carried ONLY by csp rules (c1, c2: blocking csp rules and csp exceptions; x1: csp exceptions
/// only): no plain blocking rule of any generated list has them, so `tagged_filters_all` never
/// mentions them.
const CSP_ONLY_TAGS: &[&str] = &["c1", "c2", "Strict"];
const CSP_EXCEPTION_ONLY_TAG: &str = "x1";
/// Every tag a rule can carry (gen::TAGS + the csp-only ones) + tags no rule carries.
const TAG_UNIVERSE: &[&str] = &["t1", "t2", "t3", "c1", "c2", "Strict", "x1", "zz", "T1", "", "t1 ", "nope", "strict", "STRICT"];
const UNKNOWN_TAGS: &[&str] = &["zz", "T1", "", "t1 ", "nope", "strict", "STRICT"];

/// A tag for a csp rule: one of the shared tags, or one that only csp rules carry.
fn csp_tag(r: &mut Rng, exception: bool) -> &'static str {
    match r.below(6) {
        0 | 1 => r.pick(CSP_ONLY_TAGS),
        2 if exception => CSP_EXCEPTION_ONLY_TAG,
        _ => r.pick(gen::TAGS),
    }
}

fn csp_rule(r: &mut Rng) -> String {
    let exception = r.chance(1, 4);
    let pat = match r.below(8) {
        0 | 1 | 2 => format!("||{}^", r.pick(RHOSTS)),
        3 => format!("||{}/{}", r.pick(RHOSTS), r.pick(PATHS)),
        4 => format!("/{}", r.pick(PATHS)),
        5 => "*".to_string(),
        6 => format!("|https://{}/", r.pick(RHOSTS)),
        _ => gen::pattern(r),
    };
    let mut opts: Vec<String> = vec![];
    let blanket = if exception { r.chance(1, 5) } else { r.chance(1, 12) };
    opts.push(if blanket {
        "csp".to_string()
    } else {
        if r.chance(2, 3) {
            format!("csp={}", r.pick(DIRECTIVES))
        } else {
            format!("csp={}-src {}", r.pick(&["script", "img", "frame", "connect"]), r.pick(&["'none'", "'self'", "*", "data:"]))
        }
    });
    if r.chance(1, 5) {
        opts.push(format!("tag={}", csp_tag(r, exception)));
    }
    if r.chance(1, 6) {
        opts.push(gen::domain_opt(r));
    }
    if r.chance(1, 10) {
        opts.push((r.pick(&["third-party", "~third-party", "1p"])).to_string());
    }
    if r.chance(1, 14) {
        opts.push("important".into());
    }
    if r.chance(1, 15) {
        // rejected by validate_options: csp with an explicit content type, written before or after csp
        let t = (r.pick(&["script", "subdocument", "document", "~image", "font", "xhr"])).to_string();
        if r.chance(1, 2) { opts.insert(0, t); } else { opts.push(t); }
    }
    if r.chance(1, 30) {
        opts.push("badfilter".into());
    }
    if r.chance(1, 3) {
        let i = r.below(opts.len());
        let o = opts.remove(i);
        opts.push(o);
    }
    format!("{}{}${}", if exception { "@@" } else { "" }, pat, opts.join(","))
}

/// The directive a csp rule carries, as written: the text after `csp=` up to the next comma
/// (None for a blanket `csp` / an empty value).
fn csp_value_of(line: &str) -> Option<String> {
    let i = line.rfind('$')?;
    line[i + 1..].split(',').find_map(|o| {
        if o == "csp" { Some(None) } else { o.strip_prefix("csp=").map(|v| if v.is_empty() { None } else { Some(v.to_string()) }) }
    })?
}

/// Does the option list of this line hold a csp option and an explicit resource-type option?
fn csp_with_explicit_type(line: &str) -> bool {
    let Some(i) = line.rfind('$') else { return false };
    let opts: Vec<&str> = line[i + 1..].split(',').map(|o| o.trim()).collect();
    let has_csp = opts.iter().any(|o| *o == "csp" || o.starts_with("csp="));
    let types = ["script", "image", "stylesheet", "xmlhttprequest", "subdocument", "document", "font", "media", "object", "ping", "websocket", "other", "xhr", "css", "frame", "doc", "beacon", "object-subrequest"];
    // (the value of csp= may contain commas only inside the directive text, which the option splitter
    // does not support either: the generator's directives have none)
    has_csp && opts.iter().any(|o| types.contains(&o.trim_start_matches('~')))
}

fn gen_rules(r: &mut Rng) -> Vec<String> {
    let n = r.range(1, 8);
    let mut v: Vec<String> = (0..n).map(|_| csp_rule(r)).collect();
    if r.chance(1, 3) {
        // exact duplicate / same rule under another tag / its exception twin
        let i = r.below(v.len());
        let d = v[i].clone();
        v.push(match r.below(4) {
            0 => d,
            1 => format!("@@{}", d.trim_start_matches("@@")),
            2 => format!("{},tag={}", d, r.pick(gen::TAGS)),
            _ => d.trim_start_matches("@@").to_string(),
        });
    }
    if r.chance(1, 3) {
        v.push(gen::rule(r, false));
    }
    if r.chance(1, 6) {
        v.push(format!("@@{}", gen::pattern(r)));
    }
    // shuffle
    for i in (1..v.len()).rev() {
        let j = r.below(i + 1);
        v.swap(i, j);
    }
    v
}

fn gen_url(r: &mut Rng) -> String {
    let mut s = format!("{}://{}/", r.pick(&["https", "https", "http"]), r.pick(RHOSTS));
    match r.below(5) {
        0 => {}
        1 | 2 => s.push_str(r.pick(PATHS)),
        3 => {
            // repeated token: the same bucket is visited twice by check_all
            let p = r.pick(PATHS);
            s.push_str(&format!("{}/{}", p, p));
        }
        _ => s.push_str(&gen::segs(r, 1, 3).replace('^', "/").replace('*', "-")),
    }
    s
}

// ------------------------------------------------------------------------------ tag histories
/// Operation language of C07 (harness/src/bin/c07.rs) plus two more reload paths.
#[derive(Clone, Debug)]
enum Op {
    Use(Vec<String>),
    Enable(Vec<String>),
    Disable(Vec<String>),
    /// serialize_raw() of the engine itself, deserialize() into itself: tags are kept
    Reload,
    /// deserialize() the bytes of an independent engine built from the same rules that had every
    /// tag of the universe enabled: the receiver keeps ITS tags
    ReloadOther,
    /// serialize_raw(), deserialize() into a fresh `Engine::default()` which replaces the engine:
    /// a fresh engine has no tag enabled
    Fresh,
}
fn op_json(o: &Op) -> Value {
    match o {
        Op::Use(t) => json!({"use": t}),
        Op::Enable(t) => json!({"enable": t}),
        Op::Disable(t) => json!({"disable": t}),
        Op::Reload => json!("reload"),
        Op::ReloadOther => json!("reload_other"),
        Op::Fresh => json!("fresh"),
    }
}
fn op_from(v: &Value) -> Op {
    let strs = |x: &Value| x.as_array().map(|a| a.iter().map(|s| s.as_str().unwrap_or("").to_string()).collect::<Vec<_>>()).unwrap_or_default();
    if let Some(x) = v.get("use") {
        Op::Use(strs(x))
    } else if let Some(x) = v.get("enable") {
        Op::Enable(strs(x))
    } else if let Some(x) = v.get("disable") {
        Op::Disable(strs(x))
    } else if v == "reload_other" {
        Op::ReloadOther
    } else if v == "fresh" {
        Op::Fresh
    } else {
        Op::Reload
    }
}
/// (code, tags) for the Gallina fold: 0 use, 1 enable, 2 disable, 3 keep, 4 reset
fn op_coq(o: &Op) -> String {
    match o {
        Op::Use(t) => format!("(0, {})", cstrs(t)),
        Op::Enable(t) => format!("(1, {})", cstrs(t)),
        Op::Disable(t) => format!("(2, {})", cstrs(t)),
        Op::Reload | Op::ReloadOther => "(3, [])".into(),
        Op::Fresh => "(4, [])".into(),
    }
}
fn apply(e: &mut Engine, rules: &[String], optimize: bool, o: &Op) {
    fn refs(t: &[String]) -> Vec<&str> {
        t.iter().map(|s| s.as_str()).collect()
    }
    match o {
        Op::Use(t) => e.use_tags(&refs(t)),
        Op::Enable(t) => e.enable_tags(&refs(t)),
        Op::Disable(t) => e.disable_tags(&refs(t)),
        Op::Reload => {
            let bytes = e.serialize_raw().unwrap();
            e.deserialize(&bytes).unwrap();
        }
        Op::ReloadOther => {
            let mut other = Engine::from_rules_parametrised(rules.iter(), Default::default(), true, optimize);
            other.use_tags(TAG_UNIVERSE);
            let bytes = other.serialize_raw().unwrap();
            e.deserialize(&bytes).unwrap();
        }
        Op::Fresh => {
            let bytes = e.serialize_raw().unwrap();
            let mut fresh = Engine::default();
            fresh.deserialize(&bytes).unwrap();
            *e = fresh;
        }
    }
}
/// The specification of the tag state: use = assign, enable = union, disable = difference.
fn set_apply(s: &mut BTreeSet<String>, o: &Op) {
    match o {
        Op::Use(t) => *s = t.iter().cloned().collect(),
        Op::Enable(t) => s.extend(t.iter().cloned()),
        Op::Disable(t) => {
            for x in t {
                s.remove(x);
            }
        }
        Op::Reload | Op::ReloadOther => {}
        Op::Fresh => s.clear(),
    }
}

/// A tag list for one call: a mixture of currently enabled tags, tags of the universe that are not
/// enabled, tags no rule carries, with repetitions.
fn gen_tag_list(r: &mut Rng, cur: &BTreeSet<String>) -> Vec<String> {
    let enabled: Vec<&String> = cur.iter().collect();
    let n = r.range(0, 4);
    let mut v: Vec<String> = vec![];
    for _ in 0..n {
        let t = match r.below(8) {
            0 | 1 if !enabled.is_empty() => enabled[r.below(enabled.len())].clone(),
            2 => r.pick(UNKNOWN_TAGS).to_string(),
            3 | 4 => r.pick(CSP_ONLY_TAGS).to_string(),
            5 if r.chance(1, 2) => CSP_EXCEPTION_ONLY_TAG.to_string(),
            6 if !v.is_empty() => v[r.below(v.len())].clone(), // repeated tag
            _ => r.pick(gen::TAGS).to_string(),
        };
        v.push(t);
    }
    v
}

/// 1-8 operations; `stats` receives the names of the special shapes used.
fn gen_history(r: &mut Rng, stats: &mut Vec<&'static str>) -> Vec<Op> {
    let mut cur: BTreeSet<String> = BTreeSet::new();
    let mut ops: Vec<Op> = vec![];
    let n = r.range(1, 8);
    for _ in 0..n {
        let o = match r.below(16) {
            0 | 1 | 2 => Op::Use(gen_tag_list(r, &cur)),
            3 | 4 | 5 | 6 => Op::Enable(gen_tag_list(r, &cur)),
            7 | 8 | 9 => Op::Disable(gen_tag_list(r, &cur)),
            10 => {
                // disable of everything that was enabled (shuffled, sometimes with extras / repeats)
                let mut v: Vec<String> = cur.iter().cloned().collect();
                for i in (1..v.len()).rev() {
                    let j = r.below(i + 1);
                    v.swap(i, j);
                }
                if r.chance(1, 3) {
                    v.push(r.pick(UNKNOWN_TAGS).to_string());
                }
                if !v.is_empty() && r.chance(1, 3) {
                    let d = v[r.below(v.len())].clone();
                    v.push(d);
                }
                if !cur.is_empty() {
                    stats.push("history_disable_all_enabled");
                }
                Op::Disable(v)
            }
            11 => {
                // only tags that csp rules alone carry
                let mut v: Vec<String> = CSP_ONLY_TAGS.iter().map(|s| s.to_string()).collect();
                v.push(CSP_EXCEPTION_ONLY_TAG.to_string());
                v.truncate(r.range(1, 3));
                stats.push("history_call_with_csp_only_tags");
                if r.chance(1, 3) { Op::Use(v) } else if r.chance(1, 2) { Op::Enable(v) } else { Op::Disable(v) }
            }
            12 => Op::Reload,
            13 => Op::ReloadOther,
            14 => Op::Fresh,
            _ => Op::Enable(TAG_UNIVERSE.iter().filter(|_| r.chance(2, 3)).map(|s| s.to_string()).collect()),
        };
        match &o {
            Op::Reload | Op::ReloadOther | Op::Fresh => stats.push("history_serialize_deserialize"),
            Op::Use(t) | Op::Enable(t) | Op::Disable(t) => {
                let set: BTreeSet<&String> = t.iter().collect();
                if set.len() < t.len() {
                    stats.push("history_call_with_repeated_tag");
                }
                let known = |x: &String| gen::TAGS.contains(&x.as_str()) || CSP_ONLY_TAGS.contains(&x.as_str()) || x == CSP_EXCEPTION_ONLY_TAG;
                if t.iter().any(|x| cur.contains(x)) && t.iter().any(|x| !cur.contains(x) && known(x)) && t.iter().any(|x| !known(x)) {
                    stats.push("history_call_mixing_enabled_disabled_unknown");
                }
            }
        }
        set_apply(&mut cur, &o);
        ops.push(o);
    }
    ops
}

/// Rule lists for the history cases: most csp rules carry a tag (shared or csp-only) and share a
/// pattern, so that the tag set decides the policy.
fn gen_rules_tagged(r: &mut Rng) -> Vec<String> {
    let host = r.pick(RHOSTS);
    let n = r.range(2, 7);
    let mut v: Vec<String> = vec![];
    for _ in 0..n {
        let exception = r.chance(1, 3);
        let pat = if r.chance(3, 4) { format!("||{}^", host) } else { format!("||{}^", r.pick(RHOSTS)) };
        let csp = if r.chance(1, if exception { 5 } else { 14 }) { "csp".to_string() } else { format!("csp={}", r.pick(DIRECTIVES)) };
        let mut opts = vec![csp];
        if r.chance(3, 4) {
            opts.push(format!("tag={}", csp_tag(r, exception)));
        }
        if r.chance(1, 3) {
            let j = r.below(opts.len());
            opts.swap(0, j);
        }
        v.push(format!("{}{}${}", if exception { "@@" } else { "" }, pat, opts.join(",")));
    }
    if r.chance(1, 2) {
        v.extend(gen_rules(r));
    }
    if r.chance(1, 2) {
        // plain tagged blocking rules: only the shared tags
        v.push(format!("||{}^$tag={}", host, r.pick(gen::TAGS)));
    }
    for i in (1..v.len()).rev() {
        let j = r.below(i + 1);
        v.swap(i, j);
    }
    v
}

struct Case {
    rules: Vec<String>,
    /// tag state installed by one use_tags call (when `ops` is None)
    tags: Vec<String>,
    /// tag state reached through a history of operations
    ops: Option<Vec<Op>>,
    url: String,
    source: String,
    ty: String,
    optimize: bool,
}
impl Case {
    fn json(&self) -> Value {
        let mut v = json!({"rules": self.rules, "tags": self.tags, "url": self.url, "source": self.source, "type": self.ty, "optimize": self.optimize});
        if let Some(ops) = &self.ops {
            v["ops"] = json!(ops.iter().map(op_json).collect::<Vec<_>>());
        }
        v
    }
    fn from_json(v: &Value) -> Case {
        let strs = |x: &Value| -> Vec<String> { x.as_array().map(|a| a.iter().map(|s| s.as_str().unwrap_or("").to_string()).collect()).unwrap_or_default() };
        Case {
            rules: strs(&v["rules"]),
            tags: strs(&v["tags"]),
            ops: v["ops"].as_array().map(|a| a.iter().map(op_from).collect()),
            url: v["url"].as_str().unwrap_or("").to_string(),
            source: v["source"].as_str().unwrap_or("").to_string(),
            ty: v["type"].as_str().unwrap_or("").to_string(),
            optimize: v["optimize"].as_bool().unwrap_or(true),
        }
    }
    /// The operations that install the tag state (a single use_tags when there is no history).
    fn history(&self) -> Vec<Op> {
        match &self.ops {
            Some(o) => o.clone(),
            None => vec![Op::Use(self.tags.clone())],
        }
    }
}

/// State observed after one operation of the history.
struct Step {
    set: BTreeSet<String>,                  // specification: set algebra
    exists: Vec<bool>,                      // Engine::tag_exists for every tag of TAG_UNIVERSE
    got: Option<String>,                    // Engine::get_csp_directives
}

struct Outcome {
    rt: String,                              // RequestType variant name
    /// per-rule scan, tag test NOT applied: (tag, is_exception, directive) of the live csp rules
    /// for which NetworkFilter::matches holds
    candidates: Vec<(Option<String>, bool, Option<String>)>,
    masks: Vec<(String, u32)>,               // parsed csp rules: (line, mask)
    steps: Vec<Step>,                        // one per operation of the history
}
impl Outcome {
    /// the candidates whose tag is in `set` (or that have none)
    fn matching(&self, set: &BTreeSet<String>) -> Vec<(bool, Option<String>)> {
        self.candidates.iter().filter(|(t, _, _)| t.as_ref().map(|t| set.contains(t)).unwrap_or(true)).map(|(_, e, d)| (*e, d.clone())).collect()
    }
    fn last(&self) -> &Step {
        self.steps.last().unwrap()
    }
}

fn eval(c: &Case) -> Option<Outcome> {
    let req = Request::new(&c.url, &c.source, &c.ty).ok()?;
    implrun::net::register_request(&req, &c.url, &c.source, &c.ty);
    // the lines as a caller that split a CRLF file on '\n' hands them over: every other case keeps a
    // carriage return (or other blanks) at the end of each line; a line is trimmed before it is parsed
    let fed: Vec<String> = if (c.url.len() + c.rules.len()) % 2 == 0 { c.rules.iter().enumerate().map(|(i, l)| format!("{}{}", l, ["\r", " \r", "\t", "\r\n", ""][i % 5])).collect() } else { c.rules.clone() };
    let mut engine = Engine::from_rules_parametrised(fed.iter(), Default::default(), true, c.optimize);
    let mut set: BTreeSet<String> = BTreeSet::new();
    let mut steps = vec![];
    for o in c.history() {
        apply(&mut engine, &c.rules, c.optimize, &o);
        set_apply(&mut set, &o);
        steps.push(Step { set: set.clone(), exists: TAG_UNIVERSE.iter().map(|t| engine.tag_exists(t)).collect(), got: engine.get_csp_directives(&req) });
    }
    let parsed: Vec<(String, NetworkFilter)> = c
        .rules
        .iter()
        .filter_map(|l| match adblock::lists::parse_filter(l, true, Default::default()) {
            Ok(adblock::lists::ParsedFilter::Network(f)) => Some((l.trim().to_string(), f)),
            _ => None,
        })
        .collect();
    let bad_ids: Vec<u64> = parsed.iter().filter(|(_, f)| f.is_badfilter()).map(|(_, f)| f.get_id_without_badfilter()).collect();
    let mut candidates = vec![];
    let mut masks = vec![];
    for (line, f) in &parsed {
        if !f.is_csp() {
            continue;
        }
        masks.push((line.clone(), adblock::verif_hooks::dump_filter(f).mask));
        if f.is_badfilter() || bad_ids.contains(&f.get_id()) {
            continue;
        }
        // the tag as written in the rule (not as stored by the parser)
        let tag = option_value_last(line, &["tag"]);
        if implrun::net::rule_matches(f, &req) {
            // the directive is read off the rule text, not off the parsed rule
            candidates.push((tag, f.is_exception(), csp_value_of(line)));
        }
    }
    Some(Outcome { rt: format!("{:?}", req.request_type), candidates, masks, steps })
}

/// Oracle over the whole history: after every operation `tag_exists` is the set algebra and the
/// policy is the reference over the rules whose tag is in that set.  Returns the failures.
fn judge(c: &Case, o: &Outcome) -> Vec<String> {
    let mut f = vec![];
    let hist = c.history();
    for (i, st) in o.steps.iter().enumerate() {
        let at = if c.ops.is_some() { format!(" after operation {} of the history ({})", i + 1, op_json(&hist[i])) } else { String::new() };
        for (t, got) in TAG_UNIVERSE.iter().zip(st.exists.iter()) {
            if *got != st.set.contains(*t) {
                f.push(format!("tag_exists({:?}) = {} but the set algebra gives {} (enabled set {:?}){}", t, got, st.set.contains(*t), st.set, at));
                break; // one report per operation
            }
        }
        let want = reference(is_doc(c), &o.matching(&st.set));
        if !agrees(&st.got, &want) {
            f.push(format!("get_csp_directives returned {:?} but the specification gives {:?} under the enabled tags {:?}{}", st.got, want, st.set, at));
        }
    }
    f
}

/// Independent statement of the property (L0), as a set; None = no policy.
fn reference(doc_or_subdoc: bool, matching: &[(bool, Option<String>)]) -> Option<BTreeSet<String>> {
    if !doc_or_subdoc {
        return None;
    }
    if matching.iter().any(|(e, d)| *e && d.is_none()) {
        return None;
    }
    let excepted: BTreeSet<&String> = matching.iter().filter(|(e, _)| *e).filter_map(|(_, d)| d.as_ref()).collect();
    let set: BTreeSet<String> = matching
        .iter()
        .filter(|(e, _)| !*e)
        .filter_map(|(_, d)| d.clone())
        .filter(|d| !excepted.contains(d))
        .collect();
    if set.is_empty() {
        None
    } else {
        Some(set)
    }
}

/// Does the implementation's string denote exactly `want` (set of items, each once)?
fn agrees(got: &Option<String>, want: &Option<BTreeSet<String>>) -> bool {
    match (got, want) {
        (None, None) => true,
        (Some(s), Some(w)) => {
            let items: Vec<&str> = s.split(',').collect();
            let set: BTreeSet<String> = items.iter().map(|x| x.to_string()).collect();
            set.len() == items.len() && &set == w
        }
        _ => false,
    }
}

/// Is this a document / sub-document request?  The declared type decides, except that a ws:// or
/// wss:// URL is a websocket request whatever type is declared (C12: websocket schemes force the
/// websocket type), so no policy is due for it.
fn is_doc(c: &Case) -> bool {
    let u = c.url.trim_start().to_ascii_lowercase();
    let websocket = u.starts_with("ws:") || u.starts_with("wss:");
    !websocket && matches!(c.ty.as_str(), "document" | "main_frame" | "subdocument" | "sub_frame")
}

/// Gallina: the tag set of a history by set algebra (fold over (code, tags) pairs).
fn coq_tag_set(ops: &[Op]) -> String {
    format!(
        "(fold_left (fun (s : list str) (op : N * list str) => if N.eqb (fst op) 0 then snd op else if N.eqb (fst op) 1 then List.app (snd op) s else if N.eqb (fst op) 2 then filter (fun x => negb (mem_str x (snd op))) s else if N.eqb (fst op) 3 then s else []) {} [])",
        clist(ops, op_coq)
    )
}

fn main() {
    let a = args();
    if let Some(p) = &a.replay {
        let v: Value = serde_json::from_str(&std::fs::read_to_string(p).unwrap()).unwrap();
        let c = Case::from_json(&v["replay"]);
        let o = eval(&c).expect("request could not be built");
        for (i, st) in o.steps.iter().enumerate() {
            let want = reference(is_doc(&c), &o.matching(&st.set));
            println!("step {} ({}): enabled tags (set algebra)={:?} tag_exists={:?} impl={:?} spec={:?}", i + 1, op_json(&c.history()[i]), st.set,
                TAG_UNIVERSE.iter().zip(st.exists.iter()).filter(|(_, b)| **b).map(|(t, _)| *t).collect::<Vec<_>>(), st.got, want);
        }
        println!("request_type={} candidates (tag, exception, directive)={:?}", o.rt, o.candidates);
        let fails = judge(&c, &o);
        for f in &fails {
            println!("FAIL: {}", f);
        }
        if !fails.is_empty() {
            println!("VIOLATION property=C15 replay={}", p.display());
            std::process::exit(1);
        }
        return;
    }
    let mut r = Rng::new(a.seed);
    let mut cs = Cases::new(&a.out, "Generated C15_Model");
    let mut sm = Summary::default();
    sm.rule = "random lists of 1-9 csp rules (8 fixed + 16 composed directives incl. case twins, blanket `csp`, exceptions with and without directive, tags, domain=, party, important, badfilter, duplicates and exception twins) mixed with ordinary rules, optimised or not, x requests of all 19 type strings (half of them document/subdocument) on 4 hosts; the enabled tag set is installed by one use_tags call (half of the random cases) or REACHED THROUGH A HISTORY of 1-8 use_tags / enable_tags / disable_tags calls and reloads (serialize_raw + deserialize into the engine itself, of an independent engine's bytes, into a fresh Engine) over lists where most csp rules are tagged, incl. tags carried only by csp rules (c1, c2) or only by csp exceptions (x1) and by no plain blocking rule, calls mixing enabled / not-enabled / unknown tags, repeated tags, disable of everything enabled; after EVERY operation the policy is compared with the reference under the set-algebra tag set and tag_exists with that set for 11 tags; the exhaustive sweep reaches its tag state through 4 history shapes; non-trivial = document/subdocument request with at least one matching active csp rule".into();
    let n = 3000 * a.scale;
    let mut mask_seen: BTreeSet<u32> = BTreeSet::new();
    let mut all: Vec<Case> = vec![];
    for k in 0..n {
        let with_history = k % 2 == 1;
        let rules = if with_history && r.chance(3, 4) { gen_rules_tagged(&mut r) } else { gen_rules(&mut r) };
        let url = if with_history && r.chance(1, 2) {
            let k = r.below(rules.len());
            gen::url_for(&mut r, &rules[k])
        } else if r.chance(1, 5) {
            gen::url_for(&mut r, &rules[0])
        } else {
            gen_url(&mut r)
        };
        // never an empty source: "no source + domain= rule" is the C01 finding F2, not a C15 matter
        // (initiators of every depth: gen::source_url puts 0-7 labels in front of a domain a rule may name)
        let source = match r.below(3) {
            0 => format!("https://{}/page", r.pick(gen::DOMAINS)),
            1 => format!("https://{}/", r.pick(RHOSTS)),
            _ => { let s = gen::source_url(&mut r); if s.is_empty() { "https://a.b.c.d.e.a.com/".to_string() } else { s } }
        };
        let ty = if r.chance(1, 2) || (with_history && r.chance(1, 2)) { r.pick(&["document", "subdocument", "main_frame", "sub_frame"]) } else { gen::request_type(&mut r) };
        let mut tags = vec![];
        for t in gen::TAGS.iter().chain(CSP_ONLY_TAGS.iter()) {
            if r.chance(1, 2) {
                tags.push(t.to_string());
            }
        }
        let ops = if with_history {
            let mut st = vec![];
            let ops = gen_history(&mut r, &mut st);
            for s in st {
                cs.stat(s);
            }
            let mut set = BTreeSet::new();
            for o in &ops {
                set_apply(&mut set, o);
            }
            tags = set.into_iter().collect();
            Some(ops)
        } else {
            None
        };
        all.push(Case { rules, tags, ops, url, source, ty: ty.to_string(), optimize: r.chance(2, 3) });
    }
    // exhaustive sweep: every subset of 8 csp rules on one host x tag state x request type
    let universe = [
        "||foo.com^$csp=a",
        "||foo.com^$csp=b",
        "@@||foo.com^$csp=a",
        "@@||foo.com^$csp=b",
        "@@||foo.com^$csp",
        "||foo.com^$csp",
        "||foo.com^$csp=c,tag=t1",
        "@@||foo.com^$csp=b,tag=t1",
    ];
    let types: &[&str] = if a.scale > 1 { &["document", "subdocument", "script", "xhr", "other"] } else { &["document", "script"] };
    let sv = |v: &[&str]| v.iter().map(|s| s.to_string()).collect::<Vec<String>>();
    for mask in 0..256u32 {
        for tagged in [false, true] {
            for ty in types {
                let rules: Vec<String> = universe.iter().enumerate().filter(|(i, _)| mask & (1 << i) != 0).map(|(_, l)| l.to_string()).collect();
                let tags = if tagged { vec!["t1".to_string()] } else { vec![] };
                // the tag state {t1} / {} is reached in one of four ways
                let ops = match (mask / 2) % 4 {
                    0 => None,
                    1 => Some(if tagged { vec![Op::Enable(sv(&["t1"]))] } else { vec![Op::Enable(sv(&["t1"])), Op::Disable(sv(&["t1", "t1"]))] }),
                    2 => Some(if tagged { vec![Op::Use(sv(&["t1", "t2"])), Op::Disable(sv(&["t2", "zz"]))] } else { vec![Op::Use(sv(&["t1"])), Op::Reload, Op::Use(vec![])] }),
                    _ => Some(if tagged { vec![Op::Enable(sv(&["t1"])), Op::Reload, Op::ReloadOther] } else { vec![Op::Use(sv(&["t1"])), Op::Fresh] }),
                };
                all.push(Case { rules, tags, ops, url: "https://foo.com/page".into(), source: "https://foo.com/".into(), ty: ty.to_string(), optimize: mask % 2 == 0 });
            }
        }
    }
    sm.extra.insert("exhaustive_sweep".into(), json!(format!("all 256 subsets of {} csp rules on one host x tag t1 on/off (state reached by use_tags or by one of three histories) x {} request types", universe.len(), types.len())));
    for c in all {
        if !c.url.is_ascii() || c.url.contains('*') {
            cs.stat("skipped_url_outside_domain");
            continue;
        }
        let Some(o) = eval(&c) else { cs.stat("request_error"); continue };
        // a csp option together with an explicit resource-type option is not a rule (the policy applies
        // to documents; uBO and the crate's validate_options refuse the combination), wherever in the
        // option list the type is written: such a line must not be loaded
        for l in &c.rules {
            if csp_with_explicit_type(l) {
                cs.stat("csp_with_explicit_type_line");
                if implrun::net::parse_net(l).is_some() {
                    sm.failure(None, &format!("the line {:?} combines csp with an explicit resource type and must be rejected, but it is loaded as a rule", l), c.json());
                }
            }
        }
        let st = o.last();
        let matching = o.matching(&st.set);
        sm.oracle_evaluations += o.steps.len() as u64;
        let mut desc = c.json();
        desc["request_type"] = json!(o.rt);
        desc["matching"] = json!(matching);
        desc["impl"] = json!(st.got);
        if c.ops.is_some() {
            desc["candidates"] = json!(o.candidates);
            desc["tag_exists"] = json!(TAG_UNIVERSE.iter().zip(st.exists.iter()).filter(|(_, b)| **b).map(|(t, _)| *t).collect::<Vec<_>>());
        }
        for f in judge(&c, &o) {
            sm.failure(None, &f, c.json());
        }
        cs.stat(if !is_doc(&c) { "other_type" } else if matching.is_empty() { "doc_no_matching_rule" } else if st.got.is_some() { "doc_policy" } else { "doc_matching_no_policy" });
        if matching.iter().any(|(e, d)| *e && d.is_none()) {
            cs.stat("blanket_exception_matching")
        }
        let expr = if let Some(ops) = &c.ops {
            cs.stat("history_case");
            for _ in 0..ops.len() {
                cs.stat("history_operations");
            }
            let tagged_cands: Vec<&String> = o.candidates.iter().filter_map(|(t, _, _)| t.as_ref()).collect();
            if is_doc(&c) && !tagged_cands.is_empty() {
                cs.stat("history_doc_with_tagged_csp_candidate");
                // does the policy change somewhere along the history?
                if o.steps.windows(2).any(|w| w[0].got != w[1].got) {
                    cs.stat("history_policy_changes_along_the_way");
                }
                if tagged_cands.iter().any(|t| (CSP_ONLY_TAGS.contains(&t.as_str()) || *t == CSP_EXCEPTION_ONLY_TAG) && st.set.contains(*t)) {
                    cs.stat("history_final_policy_uses_csp_only_tag");
                }
            }
            // the tag set is computed from the operations inside the Gallina expression; it must
            // explain tag_exists and select the rules the model merges
            format!(
                "let T := {} in list_eqb Bool.eqb (map (fun t => mem_str t T) {}) {} && csp_agree (get_csp_for RT_{} (map snd (filter (fun p => match fst p with None => true | Some t => mem_str t T end) {}))) {}",
                coq_tag_set(ops),
                clist(TAG_UNIVERSE, |t| hxs(t)),
                clist(&st.exists, |b| cbool(*b).to_string()),
                o.rt,
                clist(&o.candidates, |(t, e, d)| format!("({}, mk_csp {} {})", copt(t, |s| hxs(s)), cbool(*e), copt(d, |s| hxs(s)))),
                copt(&st.got, |s| hxs(s))
            )
        } else {
            format!(
                "csp_agree (get_csp_for RT_{} {}) {}",
                o.rt,
                clist(&matching, |(e, d)| format!("mk_csp {} {}", cbool(*e), copt(d, |s| hxs(s)))),
                copt(&st.got, |s| hxs(s))
            )
        };
        cs.case(expr, desc, is_doc(&c) && !matching.is_empty());
        for (line, m) in &o.masks {
            if mask_seen.insert(*m) {
                cs.stat("distinct_csp_rule_masks");
                cs.case(
                    format!("N.eqb (N.land {} M_FROM_ALL_TYPES) csp_type_mask", cn(*m)),
                    json!({"csp_rule": line, "mask": m}),
                    true,
                );
            }
        }
    }
    cs.finish();
    sm.write(&a.out, &cs);
}
