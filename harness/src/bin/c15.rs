//! C15 — the injected CSP is the union of the directives of the matching active csp rules minus
//! the excepted directives; nothing under a blanket exception; nothing for other request types.
//! Correspondence: Engine::get_csp_directives vs the Gallina `get_csp_for` (C15_Model.v) on the
//! list of (is_exception, directive) of the csp rules that match per NetworkFilter::matches and
//! whose tag is enabled; plus the type mask of every parsed csp rule vs `csp_type_mask`.
//! Oracle: an independent Rust restatement with BTreeSets, compared as a set of comma-separated
//! items with a duplicate check.
use adblock::filters::network::{NetworkFilter, NetworkFilterMaskHelper, NetworkMatchable};
use adblock::regex_manager::RegexManager;
use adblock::request::Request;
use adblock::Engine;
use implrun::*;
use serde_json::{json, Value};
use std::collections::BTreeSet;

const DIRECTIVES: &[&str] = &[
    "script-src 'none'",
    "img-src *",
    "default-src 'self'",
    "frame-src x.com",
    "script-src 'self' *.foo.com",
    "worker-src 'none'",
    "a",
    "A",
];
const RHOSTS: &[&str] = &["foo.com", "ads.net", "example.com", "sub.example.com"];
const PATHS: &[&str] = &["ads", "foo", "banner", "ads/foo", "x"];

fn csp_rule(r: &mut Rng) -> String {
    let exception = r.chance(1, 4);
    let pat = match r.below(8) {
        0 | 1 | 2 => format!("||{}^", r.pick(RHOSTS)),
        3 => format!("||{}/{}", r.pick(RHOSTS), r.pick(PATHS)),
        4 => format!("/{}", r.pick(PATHS)),
        5 => "*".to_string(),
        6 => format!("|https://{}/", r.pick(RHOSTS)),
        _ => gen::pattern(r),
    };
    let mut opts: Vec<String> = vec![];
    let blanket = if exception { r.chance(1, 5) } else { r.chance(1, 12) };
    opts.push(if blanket {
        "csp".to_string()
    } else {
        if r.chance(2, 3) {
            format!("csp={}", r.pick(DIRECTIVES))
        } else {
            format!("csp={}-src {}", r.pick(&["script", "img", "frame", "connect"]), r.pick(&["'none'", "'self'", "*", "data:"]))
        }
    });
    if r.chance(1, 5) {
        opts.push(format!("tag={}", r.pick(gen::TAGS)));
    }
    if r.chance(1, 6) {
        opts.push(gen::domain_opt(r));
    }
    if r.chance(1, 10) {
        opts.push((r.pick(&["third-party", "~third-party", "1p"])).to_string());
    }
    if r.chance(1, 14) {
        opts.push("important".into());
    }
    if r.chance(1, 30) {
        // rejected by validate_options: csp with an explicit content type
        opts.push((r.pick(&["script", "subdocument", "document", "~image"])).to_string());
    }
    if r.chance(1, 30) {
        opts.push("badfilter".into());
    }
    if r.chance(1, 3) {
        let i = r.below(opts.len());
        let o = opts.remove(i);
        opts.push(o);
    }
    format!("{}{}${}", if exception { "@@" } else { "" }, pat, opts.join(","))
}

fn gen_rules(r: &mut Rng) -> Vec<String> {
    let n = r.range(1, 8);
    let mut v: Vec<String> = (0..n).map(|_| csp_rule(r)).collect();
    if r.chance(1, 3) {
        // exact duplicate / same rule under another tag / its exception twin
        let i = r.below(v.len());
        let d = v[i].clone();
        v.push(match r.below(4) {
            0 => d,
            1 => format!("@@{}", d.trim_start_matches("@@")),
            2 => format!("{},tag={}", d, r.pick(gen::TAGS)),
            _ => d.trim_start_matches("@@").to_string(),
        });
    }
    if r.chance(1, 3) {
        v.push(gen::rule(r, false));
    }
    if r.chance(1, 6) {
        v.push(format!("@@{}", gen::pattern(r)));
    }
    // shuffle
    for i in (1..v.len()).rev() {
        let j = r.below(i + 1);
        v.swap(i, j);
    }
    v
}

fn gen_url(r: &mut Rng) -> String {
    let mut s = format!("{}://{}/", r.pick(&["https", "https", "http"]), r.pick(RHOSTS));
    match r.below(5) {
        0 => {}
        1 | 2 => s.push_str(r.pick(PATHS)),
        3 => {
            // repeated token: the same bucket is visited twice by check_all
            let p = r.pick(PATHS);
            s.push_str(&format!("{}/{}", p, p));
        }
        _ => s.push_str(&gen::segs(r, 1, 3).replace('^', "/").replace('*', "-")),
    }
    s
}

struct Case {
    rules: Vec<String>,
    tags: Vec<String>,
    url: String,
    source: String,
    ty: String,
    optimize: bool,
}
impl Case {
    fn json(&self) -> Value {
        json!({"rules": self.rules, "tags": self.tags, "url": self.url, "source": self.source, "type": self.ty, "optimize": self.optimize})
    }
    fn from_json(v: &Value) -> Case {
        let strs = |x: &Value| -> Vec<String> { x.as_array().map(|a| a.iter().map(|s| s.as_str().unwrap_or("").to_string()).collect()).unwrap_or_default() };
        Case {
            rules: strs(&v["rules"]),
            tags: strs(&v["tags"]),
            url: v["url"].as_str().unwrap_or("").to_string(),
            source: v["source"].as_str().unwrap_or("").to_string(),
            ty: v["type"].as_str().unwrap_or("").to_string(),
            optimize: v["optimize"].as_bool().unwrap_or(true),
        }
    }
}

struct Outcome {
    rt: String,                              // RequestType variant name
    matching: Vec<(bool, Option<String>)>,   // per-rule scan: (is_exception, directive)
    masks: Vec<(String, u32)>,               // parsed csp rules: (line, mask)
    got: Option<String>,                     // Engine::get_csp_directives
}

fn eval(c: &Case) -> Option<Outcome> {
    let req = Request::new(&c.url, &c.source, &c.ty).ok()?;
    let mut engine = Engine::from_rules_parametrised(c.rules.iter(), Default::default(), true, c.optimize);
    let tags: Vec<&str> = c.tags.iter().map(|s| s.as_str()).collect();
    engine.use_tags(&tags);
    let got = engine.get_csp_directives(&req);
    let parsed: Vec<(String, NetworkFilter)> = c
        .rules
        .iter()
        .filter_map(|l| match adblock::lists::parse_filter(l, true, Default::default()) {
            Ok(adblock::lists::ParsedFilter::Network(f)) => Some((l.trim().to_string(), f)),
            _ => None,
        })
        .collect();
    let bad_ids: Vec<u64> = parsed.iter().filter(|(_, f)| f.is_badfilter()).map(|(_, f)| f.get_id_without_badfilter()).collect();
    let mut matching = vec![];
    let mut masks = vec![];
    for (line, f) in &parsed {
        if !f.is_csp() {
            continue;
        }
        masks.push((line.clone(), adblock::verif_hooks::dump_filter(f).mask));
        if f.is_badfilter() || bad_ids.contains(&f.get_id()) {
            continue;
        }
        let tag = adblock::verif_hooks::filter_tag(f).map(|s| s.to_string());
        if let Some(t) = &tag {
            if !c.tags.contains(t) {
                continue;
            }
        }
        let mut rm = RegexManager::default();
        if f.matches(&req, &mut rm) {
            matching.push((f.is_exception(), f.modifier_option.clone()));
        }
    }
    Some(Outcome { rt: format!("{:?}", req.request_type), matching, masks, got })
}

/// Independent statement of the property (L0), as a set; None = no policy.
fn reference(doc_or_subdoc: bool, matching: &[(bool, Option<String>)]) -> Option<BTreeSet<String>> {
    if !doc_or_subdoc {
        return None;
    }
    if matching.iter().any(|(e, d)| *e && d.is_none()) {
        return None;
    }
    let excepted: BTreeSet<&String> = matching.iter().filter(|(e, _)| *e).filter_map(|(_, d)| d.as_ref()).collect();
    let set: BTreeSet<String> = matching
        .iter()
        .filter(|(e, _)| !*e)
        .filter_map(|(_, d)| d.clone())
        .filter(|d| !excepted.contains(d))
        .collect();
    if set.is_empty() {
        None
    } else {
        Some(set)
    }
}

/// Does the implementation's string denote exactly `want` (set of items, each once)?
fn agrees(got: &Option<String>, want: &Option<BTreeSet<String>>) -> bool {
    match (got, want) {
        (None, None) => true,
        (Some(s), Some(w)) => {
            let items: Vec<&str> = s.split(',').collect();
            let set: BTreeSet<String> = items.iter().map(|x| x.to_string()).collect();
            set.len() == items.len() && &set == w
        }
        _ => false,
    }
}

/// Is this a document / sub-document request?  The declared type decides, except that a ws:// or
/// wss:// URL is a websocket request whatever type is declared (C12: websocket schemes force the
/// websocket type), so no policy is due for it.
fn is_doc(c: &Case) -> bool {
    let u = c.url.trim_start().to_ascii_lowercase();
    let websocket = u.starts_with("ws:") || u.starts_with("wss:");
    !websocket && matches!(c.ty.as_str(), "document" | "main_frame" | "subdocument" | "sub_frame")
}

fn main() {
    let a = args();
    if let Some(p) = &a.replay {
        let v: Value = serde_json::from_str(&std::fs::read_to_string(p).unwrap()).unwrap();
        let c = Case::from_json(&v["replay"]);
        let o = eval(&c).expect("request could not be built");
        let want = reference(is_doc(&c), &o.matching);
        println!("request_type={} matching={:?} impl={:?} spec={:?}", o.rt, o.matching, o.got, want);
        if !agrees(&o.got, &want) {
            println!("VIOLATION property=C15 replay={}", p.display());
            std::process::exit(1);
        }
        return;
    }
    let mut r = Rng::new(a.seed);
    let mut cs = Cases::new(&a.out, "Generated C15_Model");
    let mut sm = Summary::default();
    sm.rule = "random lists of 1-9 csp rules (8 fixed + 16 composed directives incl. case twins, blanket `csp`, exceptions with and without directive, tags, domain=, party, important, badfilter, duplicates and exception twins) mixed with ordinary rules, random enabled tag sets, optimised or not, x requests of all 19 type strings (half of them document/subdocument) on 4 hosts; non-trivial = document/subdocument request with at least one matching active csp rule".into();
    let n = 3000 * a.scale;
    let mut mask_seen: BTreeSet<u32> = BTreeSet::new();
    let mut all: Vec<Case> = vec![];
    for _ in 0..n {
        let rules = gen_rules(&mut r);
        let url = if r.chance(1, 5) { gen::url_for(&mut r, &rules[0]) } else { gen_url(&mut r) };
        // never an empty source: "no source + domain= rule" is the C01 finding F2, not a C15 matter
        let source = if r.chance(1, 2) { format!("https://{}/page", r.pick(gen::DOMAINS)) } else { format!("https://{}/", r.pick(RHOSTS)) };
        let ty = if r.chance(1, 2) { r.pick(&["document", "subdocument", "main_frame", "sub_frame"]) } else { gen::request_type(&mut r) };
        let mut tags = vec![];
        for t in gen::TAGS {
            if r.chance(1, 2) {
                tags.push(t.to_string());
            }
        }
        all.push(Case { rules, tags, url, source, ty: ty.to_string(), optimize: r.chance(2, 3) });
    }
    // exhaustive sweep: every subset of 8 csp rules on one host x tag state x request type
    let universe = [
        "||foo.com^$csp=a",
        "||foo.com^$csp=b",
        "@@||foo.com^$csp=a",
        "@@||foo.com^$csp=b",
        "@@||foo.com^$csp",
        "||foo.com^$csp",
        "||foo.com^$csp=c,tag=t1",
        "@@||foo.com^$csp=b,tag=t1",
    ];
    let types: &[&str] = if a.scale > 1 { &["document", "subdocument", "script", "xhr", "other"] } else { &["document", "script"] };
    for mask in 0..256u32 {
        for tagged in [false, true] {
            for ty in types {
                let rules: Vec<String> = universe.iter().enumerate().filter(|(i, _)| mask & (1 << i) != 0).map(|(_, l)| l.to_string()).collect();
                let tags = if tagged { vec!["t1".to_string()] } else { vec![] };
                all.push(Case { rules, tags, url: "https://foo.com/page".into(), source: "https://foo.com/".into(), ty: ty.to_string(), optimize: mask % 2 == 0 });
            }
        }
    }
    sm.extra.insert("exhaustive_sweep".into(), json!(format!("all 256 subsets of {} csp rules on one host x tag t1 on/off x {} request types", universe.len(), types.len())));
    for c in all {
        if !c.url.is_ascii() || c.url.contains('*') {
            cs.stat("skipped_url_outside_domain");
            continue;
        }
        let Some(o) = eval(&c) else { cs.stat("request_error"); continue };
        let want = reference(is_doc(&c), &o.matching);
        sm.oracle_evaluations += 1;
        let mut desc = c.json();
        desc["request_type"] = json!(o.rt);
        desc["matching"] = json!(o.matching);
        desc["impl"] = json!(o.got);
        if !agrees(&o.got, &want) {
            sm.failure(None, &format!("get_csp_directives returned {:?} but the specification gives {:?}", o.got, want), c.json());
        }
        cs.stat(if !is_doc(&c) { "other_type" } else if o.matching.is_empty() { "doc_no_matching_rule" } else if o.got.is_some() { "doc_policy" } else { "doc_matching_no_policy" });
        if o.matching.iter().any(|(e, d)| *e && d.is_none()) {
            cs.stat("blanket_exception_matching")
        }
        let expr = format!(
            "csp_agree (get_csp_for RT_{} {}) {}",
            o.rt,
            clist(&o.matching, |(e, d)| format!("mk_csp {} {}", cbool(*e), copt(d, |s| hxs(s)))),
            copt(&o.got, |s| hxs(s))
        );
        cs.case(expr, desc, is_doc(&c) && !o.matching.is_empty());
        for (line, m) in &o.masks {
            if mask_seen.insert(*m) {
                cs.stat("distinct_csp_rule_masks");
                cs.case(
                    format!("N.eqb (N.land {} M_FROM_ALL_TYPES) csp_type_mask", cn(*m)),
                    json!({"csp_rule": line, "mask": m}),
                    true,
                );
            }
        }
    }
    cs.finish();
    sm.write(&a.out, &cs);
}
