use adblock::lists::{FilterSet, ParseOptions};
use implrun::*;
fn main() {
    let probes: Vec<Vec<&str>> = vec![
        vec!["|ws://$~websocket"],
        vec!["|ws://$websocket"],
        vec!["|ws://"],
        vec!["ads$domain=\u{200d}.com"],
        vec!["||example.com^$document"],
        vec!["ads$document"],
        vec!["||*ads.com^"],
        vec!["||ads*.com^"],
        vec!["/ads^foo"],
        vec!["ads$domain=a.com|~b.com"],
        vec!["@@||x.com^$generichide", "##.ad", "example.com##.ad", "example.com#@#.ad", "~example.com##.x"],
        vec!["a$b$domain=x.com"],
        vec!["ads$from=a.com"],
        vec!["ads$domain=\u{212a}.com"],
        vec!["ads$domain=müller.de"],
        vec!["||müller.de^"],
        vec!["ads\tfoo"],
        vec!["/ads/$image,script"],
        vec!["ads$image,document"],
        vec!["ads$image,subdocument"],
        vec!["*$document"],
        vec!["|http://"],
        vec!["|http*://"],
        vec!["ads.*", "ads+x{1}"],
    ];
    for p in probes {
        let lines: Vec<String> = p.iter().map(|s| s.to_string()).collect();
        let l2 = lines.clone();
        let r = catch(move || {
            let mut fs = FilterSet::new(true);
            fs.add_filters(&l2, ParseOptions::default());
            fs.into_content_blocking()
        });
        match r {
            Err(e) => println!("{:?} => PANIC {}", lines, e),
            Ok(Err(())) => println!("{:?} => Err", lines),
            Ok(Ok((rules, used))) => println!("{:?} => {} used={:?}", lines, serde_json::to_string(&rules).unwrap(), used),
        }
    }
}
