//! C20 — content-blocking export (`FilterSet::into_content_blocking`, feature `content-blocking`).
//!
//! Correspondence (model = coq/theories/C20_Model.v):
//!   * per rule:  `CbRuleEquivalent::try_from(NetworkFilter)` / `CbRule::try_from(CosmeticFilter)`
//!     (emitted rules field by field, or the error variant, or a panic) vs `convert_network` /
//!     `convert_cosmetic` on the parsed rule's fields;
//!   * per list:  `FilterSet::new(true)` + a random interleaving of `add_filter` / `add_filters` /
//!     `add_filter_list` / `clone` (`gen_script`) + `into_content_blocking()` (rules in order and
//!     `filters_used`) vs `into_content_blocking` of the model on the lines the set was given.
//! Oracle (independent of Coq): entry points (`oracle_script`): the conversion of a debug set does
//! not depend on which entry points loaded the rules (equal to `new(true)` + `add_filters`),
//! `add_filter` answers Ok exactly for rules, the same calls on `new(false)` / `default()` are
//! refused with Err(()) (documented), never a panic; then, on the result: no panic; every string ASCII; never if-domain and unless-domain;
//! every ignore-previous-rules entry after every other entry; `filters_used` = the lines that
//! produce output when converted alone (network lines first, then cosmetic lines, in order);
//! url-filter accepted by a conservative Safari-subset recogniser and by the `regex` crate; for
//! plain patterns every generated URL that `NetworkFilter::matches` accepts is matched by the
//! emitted url-filter.
use adblock::content_blocking::{CbLoadType, CbRule, CbRuleEquivalent, CbType};
use adblock::filters::cosmetic::{CosmeticFilter, CosmeticFilterMask};
use adblock::filters::network::{FilterPart, NetworkFilter, NetworkFilterMask, NetworkMatchable};
use adblock::lists::{parse_filter, FilterSet, ParseOptions, ParsedFilter};
use adblock::regex_manager::RegexManager;
use adblock::request::Request;
use implrun::*;
use serde_json::{json, Value};
use std::collections::{HashMap, HashSet};
use std::convert::TryFrom;

// ------------------------------------------------------------------------------- generators
const IDN: &[&str] = &[
    "müller.de", "пример.рф", "\u{200d}.com", "\u{212a}.com", "ÉXAMPLE.com", "a.com", "B.COM",
    "sub.a.com", "xn--mller-kva.de", "", "/re/", "ü--.com", "example.com", "x.net", "a\u{301}.org",
];
const SPECIALS: &[&str] = &[".", "+", "?", "^", "$", "{", "}", "(", ")", "|", "[", "]", "\\", "*", "-", "~", ",", "=", " ", "\t", "%", "&"];
const SELECTORS: &[&str] = &[
    ".ad", "#banner", "div[class=\"x\"]", ".é", ".ad:has-text(x)", ".ad:style(color: red)", "+js(foo, bar)",
    ".a > .b", ".ad:remove()", "a[href^=\"http://ads.\"]", ".x:has(.y)", "div:matches-css(color: red)", "", ".ad, .ads",
    ".ad:upward(2)", "##", ".漢",
];
const COS_HOSTS: &[&str] = &[
    "example.com", "~example.com", "example.*", "~example.*", "müller.de", "~müller.de", "\u{200d}.com",
    "/regex/", "sub.example.com", "Example.COM", "", "~", ".*", "~.*", "foo.com", "~foo.com", "пример.рф",
    "a.b.example.co.uk", "~/re/", "x_y.com",
];

fn c20_domain_opt(r: &mut Rng) -> String {
    let n = r.range(1, 3);
    let mut v = vec![];
    for _ in 0..n {
        let d = if r.chance(1, 2) { r.pick(IDN) } else { r.pick(gen::DOMAINS) };
        v.push(if r.chance(1, 3) { format!("~{}", d) } else { d.to_string() });
    }
    format!("{}={}", if r.chance(1, 10) { "from" } else { "domain" }, v.join("|"))
}

fn special_pattern(r: &mut Rng) -> String {
    let mut s = String::new();
    if r.chance(1, 3) {
        s.push_str(r.pick(&["||", "|", "@@", "@@||"]));
    }
    let n = r.range(1, 5);
    for _ in 0..n {
        if r.chance(2, 3) {
            s.push_str(r.pick(gen::VOCAB));
        }
        if r.chance(2, 3) {
            s.push_str(r.pick(SPECIALS));
        }
    }
    if r.chance(1, 8) {
        s.push('|');
    }
    s
}

fn c20_network(r: &mut Rng) -> String {
    match r.below(16) {
        0..=3 => gen::rule(r, true),
        4 | 5 => special_pattern(r),
        6 | 7 => {
            let mut o = gen::options(r, false);
            o.push(c20_domain_opt(r));
            if r.chance(1, 3) {
                o.push((r.pick(&["script", "image", "third-party", "~third-party", "important"])).to_string());
            }
            if r.chance(1, 2) {
                o.reverse();
            }
            format!("{}{}${}", if r.chance(1, 6) { "@@" } else { "" }, gen::pattern(r), o.join(","))
        }
        8 => format!(
            "/{}{}/{}",
            r.pick(gen::VOCAB),
            r.pick(&["[0-9]+", "\\d{2,}", ".*", "(a|b)", ""]),
            r.pick(&["", "$match-case", "$image", "$script,match-case"])
        ),
        9 => format!(
            "{}{}",
            r.pick(&["|ws://", "|http://", "|https://", "|http*://", "|wss://", "|ws://x", "*"]),
            r.pick(&["", "", "$~websocket", "$websocket", "$image", "$~image", "$third-party", "$~websocket,~image", "$document", "|"])
        ),
        10 => format!(
            "{}{}",
            r.pick(&["^", "*^", "^*", "|^", "^|", "*", "||^", "^^", "*^*", "||*", "|*", "*|", "||", "|", "$", "^a", "a^"]),
            r.pick(&["", "", "$image", "$third-party", "$domain=a.com", "$script,domain=~a.com"])
        ),
        11 if r.chance(1, 2) => (r.pick(&[
            "ads/é", "||müller.de^", "||\u{200d}.com^", "||пример.рф/ads", "é", "||ÉXAMPLE.com^", "ads$tag=é",
            "||Example.COM/Ads", "|HTTPS://Example.com/", "ADS", "||www.Example.com^", "||x.com/é$image",
        ]))
        .to_string(),
        // a pattern with a non-ASCII character under every kind of option list (one type, several
        // types, types that are exported as separate rules, party options, domains)
        11 => format!(
            "{}{}${}",
            if r.chance(1, 5) { "@@" } else { "" },
            r.pick(&["ads/é", "/réclame-", "||x.com/é", "é*ads", "||müller.de/bü", "|https://x.com/ü|", "ü",
                "||пример.рф^", "||例え例.jp^", "реклама/", "||ü.de/реклама^", "/広告/", "||пр.рф/a"]),
            r.pick(&[
                "image", "script,subdocument", "script,subdocument,stylesheet", "subdocument", "document", "document,subdocument",
                "image,subdocument,third-party", "frame,script", "xhr,font,media,css", "~image", "~subdocument", "1p", "3p,script,subdocument",
                "domain=a.com", "script,subdocument,domain=a.com|b.com", "important,subdocument,image", "websocket,subdocument",
            ])
        ),
        12 => format!(
            "{}{}${}",
            if r.chance(1, 3) { "@@" } else { "" },
            gen::pattern(r),
            r.pick(&[
                "document", "important", "generichide", "ghide", "badfilter", "csp=script-src 'none'", "csp",
                "redirect=noop.js", "redirect-rule=noop.js", "removeparam=utm", "doc", "document,image",
                "document,subdocument", "subdocument", "image,subdocument", "image,subdocument,third-party",
                "object", "ping", "other", "websocket", "object,image", "~object", "~image", "~subdocument",
                "xhr,font,media,css", "popup", "all", "1p", "3p", "1p,3p", "~third-party,~first-party", "elemhide",
                "important,document", "tag=t1", "frame,script",
            ])
        ),
        13 => (r.pick(&[
            "a$b$domain=x.com", "ads$domain=evil$from=a.com", "a$domain=b.com$image", "x$domain=a.com,domain=~b.com",
            "x$domain=a.com|~b.com", "x$domain=~a.com|~b.com", "x$image,domain=a.com|b.com,third-party",
            "x$tag=domain=y,domain=a.com", "x$domain=", "x$domain=~", "x$domain=a.com|", "x$domain=|", "x$domain=/re/|a.com",
            "x$from=a.com", "x$from=a.com,domain=b.com", "x$domain=A.COM", "x$domain=\u{200d}.com", "x$domain=~\u{200d}.com",
        ]))
        .to_string(),
        14 => format!("||{}{}", r.pick(gen::HOSTS), r.pick(&["", "^", "/", "/ads", "/ads/banner.js", "^$third-party", "|", ":8080/x", "/Ads?x=1"])),
        _ => format!("{}{}", r.pick(&["", "|https://", "|http://"]), gen::segs(r, 1, 3).replace('^', "/").replace('*', "-")),
    }
}

fn c20_cosmetic(r: &mut Rng) -> String {
    let n = r.below(4);
    let mut hs = vec![];
    for _ in 0..n {
        hs.push(r.pick(COS_HOSTS));
    }
    format!("{}{}{}", hs.join(","), r.pick(&["##", "##", "##", "#@#", "#@#", "#?#", "#$#"]), r.pick(SELECTORS))
}

fn c20_line(r: &mut Rng) -> String {
    match r.below(20) {
        0..=11 => c20_network(r),
        12..=17 => c20_cosmetic(r),
        18 => gen::junk(r),
        _ => (r.pick(&["! comment", "[Adblock Plus 2.0]", "", "# x", "127.0.0.1 ads.net"])).to_string(),
    }
}

// ------------------------------------------------------------------------------- Coq literals
fn cstr_opt(o: &Option<String>) -> String {
    copt(o, |s| hxs(s))
}
fn cstrs_opt(o: &Option<Vec<String>>) -> String {
    copt(o, |v| cstrs(v))
}

fn net_record(f: &NetworkFilter) -> String {
    let filt = match &f.filter {
        FilterPart::Empty => "FEmpty".to_string(),
        FilterPart::Simple(s) => format!("(FSimple {})", hxs(s)),
        FilterPart::AnyOf(_) => "FAnyOf".to_string(),
    };
    format!(
        "(mkNet {} {} {} {} {} {})",
        cn(f.mask.bits()),
        filt,
        cstr_opt(&f.hostname),
        cbool(f.opt_domains.is_some()),
        cbool(f.opt_not_domains.is_some()),
        cstr_opt(&f.raw_line.as_ref().map(|b| (**b).clone()))
    )
}

fn cos_plain(f: &CosmeticFilter) -> Option<String> {
    if f.selector.is_empty() {
        None
    } else {
        f.plain_css_selector().map(|s| s.to_string())
    }
}

fn cos_record(f: &CosmeticFilter) -> String {
    format!(
        "(mkCos {} {} {} {} {} {})",
        cstr_opt(&f.raw_line.as_ref().map(|b| (**b).clone())),
        cbool(f.mask.contains(CosmeticFilterMask::UNHIDE)),
        cbool(f.action.is_some()),
        cbool(f.mask.contains(CosmeticFilterMask::SCRIPT_INJECT)),
        cn(f.selector.len()),
        cstr_opt(&cos_plain(f))
    )
}

fn type_code(t: &CbType) -> u32 {
    match t {
        CbType::Block => 0,
        CbType::CssDisplayNone => 1,
        CbType::IgnorePreviousRules => 2,
        _ => 99,
    }
}

fn res_codes(r: &CbRule) -> Option<Vec<u64>> {
    r.trigger.resource_type.as_ref().map(|s| {
        let mut v: Vec<u64> = s.iter().map(|t| t.clone() as u64).collect();
        v.sort();
        v
    })
}

fn out_rule(r: &CbRule) -> String {
    format!(
        "(mkOut {} {} {} {} {} {} {} {})",
        cn(type_code(&r.action.typ)),
        cstr_opt(&r.action.selector),
        hxs(&r.trigger.url_filter),
        cbool(r.trigger.url_filter_is_case_sensitive == Some(true)),
        cstrs_opt(&r.trigger.if_domain),
        cstrs_opt(&r.trigger.unless_domain),
        copt(&res_codes(r), |v| clist(v, |c| cn(c))),
        clist(&r.trigger.load_type, |l| cn(match l {
            CbLoadType::FirstParty => 0,
            CbLoadType::ThirdParty => 1,
        }))
    )
}

const ERRS: &[&str] = &[
    "NeedsDebugMode", "UnlessAndIfDomainTogetherUnsupported", "NoSupportedNetworkOptions", "NetworkRedirectUnsupported",
    "NetworkGenerichideUnsupported", "NetworkBadFilterUnsupported", "NetworkCspUnsupported", "NetworkRemoveparamUnsupported",
    "FullRegexUnsupported", "OptimizedRulesUnsupported", "CosmeticEntitiesUnsupported", "CosmeticActionRulesNotSupported",
    "ScriptletInjectionsNotSupported", "RuleContainsNonASCII", "FromNotSupported", "ProceduralCosmeticFiltersUnsupported",
];
fn err_code(dbg: &str) -> u32 {
    let name = dbg.split('(').next().unwrap_or("");
    ERRS.iter().position(|e| *e == name).map(|i| i as u32).unwrap_or(999)
}

/// Outcome of one conversion on the implementation.
#[derive(Clone)]
enum Conv {
    Rules(Vec<CbRule>),
    Err(String),
    Panic(String),
}
fn conv_lit(c: &Conv) -> String {
    match c {
        Conv::Rules(v) => format!("(Ok (inl {}))", clist(v, |r| out_rule(r))),
        Conv::Err(e) => format!("(Ok (inr {}))", cn(err_code(e))),
        Conv::Panic(_) => "(Panic \"\")".to_string(),
    }
}
fn conv_json(c: &Conv) -> Value {
    match c {
        Conv::Rules(v) => json!({"rules": v}),
        Conv::Err(e) => json!({"err": e}),
        Conv::Panic(p) => json!({"panic": p}),
    }
}

fn convert_net(f: &NetworkFilter) -> Conv {
    let g = f.clone();
    match catch(move || CbRuleEquivalent::try_from(g).map(|e| e.into_iter().collect::<Vec<_>>()).map_err(|e| format!("{:?}", e))) {
        Ok(Ok(v)) => Conv::Rules(v),
        Ok(Err(e)) => Conv::Err(e),
        Err(p) => Conv::Panic(p),
    }
}
fn convert_cos(f: &CosmeticFilter) -> Conv {
    let g = f.clone();
    match catch(move || CbRule::try_from(g).map_err(|e| format!("{:?}", e))) {
        Ok(Ok(v)) => Conv::Rules(vec![v]),
        Ok(Err(e)) => Conv::Err(e),
        Err(p) => Conv::Panic(p),
    }
}

// oracle tables ----------------------------------------------------------------------------
fn norm_answer(d: &str) -> Option<String> {
    let l = d.to_lowercase();
    if l.is_ascii() {
        Some(l)
    } else {
        idna::domain_to_ascii(&l).ok()
    }
}
/// Every string the model may ask the `norm` oracle about for this raw line (a superset).
fn norm_table(line: &str, t: &mut Vec<(String, Option<String>)>) {
    let mut from = 0;
    while let Some(i) = line[from..].find("domain=") {
        let start = from + i + "domain=".len();
        let rest = &line[start..];
        let seg = &rest[..rest.find(',').unwrap_or(rest.len())];
        for d in seg.split('|') {
            for c in [d, d.strip_prefix('~').unwrap_or(d)] {
                if !c.is_ascii() && !t.iter().any(|(k, _)| k == c) {
                    t.push((c.to_string(), norm_answer(c)));
                }
            }
        }
        from = start;
    }
}
fn idna_table(line: &str, t: &mut Vec<(String, Option<String>)>) {
    let pre = &line[..line.find('#').unwrap_or(line.len())];
    for p in pre.split(',') {
        let a = p.strip_prefix('~').unwrap_or(p);
        for c in [p, a, p.strip_suffix(".*").unwrap_or(p), a.strip_suffix(".*").unwrap_or(a)] {
            if !t.iter().any(|(k, _)| k == c) {
                t.push((c.to_string(), idna::domain_to_ascii(c).ok()));
            }
        }
    }
}
fn table_lit(t: &[(String, Option<String>)]) -> String {
    format!("(table {})", clist(t, |(k, v)| format!("({}, {})", hxs(k), cstr_opt(v))))
}

// ------------------------------------------------------------------------------- oracle pieces
/// Conservative recogniser of the regex subset Safari's URLFilterParser accepts (same automaton
/// as `safari_ok` in C20_Model.v, written independently of the converter).
fn safari_ok(t: &str) -> bool {
    #[derive(Clone, Copy, PartialEq)]
    enum S {
        Top(bool, bool, bool),
        Esc(bool),
        ClsOpen(bool),
        ClsNeg(bool),
        ClsBody(bool),
        ClsEsc(bool),
        End,
        Fail,
    }
    const META: &str = ".*+?^${}()|[]\\";
    let b: Vec<char> = t.chars().collect();
    if b.is_empty() {
        return false;
    }
    let body = if b[0] == '^' { &b[1..] } else { &b[..] };
    let mut s = S::Top(false, false, false);
    for &c in body {
        let meta = META.contains(c);
        s = match s {
            S::Top(g, gi, q) => match c {
                '\\' => S::Esc(g),
                '.' => S::Top(g, true, true),
                '[' => S::ClsOpen(g),
                '(' => if g { S::Fail } else { S::Top(true, false, false) },
                ')' => if g && gi { S::Top(false, false, true) } else { S::Fail },
                '*' | '+' | '?' => if q { S::Top(g, gi, false) } else { S::Fail },
                '$' => if g { S::Fail } else { S::End },
                _ if meta => S::Fail,
                _ => S::Top(g, true, true),
            },
            S::Esc(g) => if meta { S::Top(g, true, true) } else { S::Fail },
            S::ClsOpen(g) => match c {
                '^' => S::ClsNeg(g),
                '\\' => S::ClsEsc(g),
                _ if meta => S::Fail,
                _ => S::ClsBody(g),
            },
            S::ClsNeg(g) | S::ClsBody(g) => match c {
                ']' => if matches!(s, S::ClsBody(_)) { S::Top(g, true, true) } else { S::Fail },
                '\\' => S::ClsEsc(g),
                _ if meta => S::Fail,
                _ => S::ClsBody(g),
            },
            S::ClsEsc(g) => if meta { S::ClsBody(g) } else { S::Fail },
            S::End | S::Fail => S::Fail,
        };
    }
    matches!(s, S::Top(false, _, _) | S::End)
}

fn rule_strings(r: &CbRule) -> Vec<&String> {
    let mut v = vec![&r.trigger.url_filter];
    v.extend(r.action.selector.iter());
    for l in [&r.trigger.if_domain, &r.trigger.unless_domain, &r.trigger.if_top_url, &r.trigger.unless_top_url] {
        v.extend(l.iter().flatten());
    }
    v
}

fn has(m: NetworkFilterMask, f: NetworkFilterMask) -> bool {
    m.contains(f)
}
/// Input class of the finding fixed by 26d3d76 (`|ws://$~websocket`): the rule has lost all three
/// scheme bits. Only used for generator statistics now; a panic on it is an ordinary violation.
fn lost_scheme_shape(f: &NetworkFilter) -> bool {
    let needs = match (&f.filter, &f.hostname) {
        (FilterPart::Simple(_), None) => !has(f.mask, NetworkFilterMask::IS_LEFT_ANCHOR),
        (FilterPart::Empty, None) => true,
        _ => false,
    };
    needs
        && !has(f.mask, NetworkFilterMask::FROM_HTTP)
        && !has(f.mask, NetworkFilterMask::FROM_HTTPS)
        && !has(f.mask, NetworkFilterMask::FROM_WEBSOCKET)
}
/// Input class of the other finding fixed by 26d3d76 (`*^`): the pattern is nothing but a trailing
/// separator, no anchors, no hostname. Statistics only; an empty url-filter is a violation.
fn separator_only_shape(f: &NetworkFilter) -> bool {
    match (&f.filter, &f.hostname) {
        (FilterPart::Simple(p), None) => {
            p == "^"
                && !has(f.mask, NetworkFilterMask::IS_LEFT_ANCHOR)
                && !has(f.mask, NetworkFilterMask::IS_RIGHT_ANCHOR)
                && has(f.mask, NetworkFilterMask::FROM_HTTP | NetworkFilterMask::FROM_HTTPS)
        }
        _ => false,
    }
}

/// "plain" shapes for the inclusion check: no wildcard and no separator in the pattern part
/// (`||host^` has an empty pattern part and is included).
fn plain_shape(f: &NetworkFilter) -> bool {
    if has(f.mask, NetworkFilterMask::IS_COMPLETE_REGEX) || has(f.mask, NetworkFilterMask::IS_HOSTNAME_REGEX) {
        return false;
    }
    match &f.filter {
        FilterPart::Empty => true,
        FilterPart::Simple(p) => !p.contains('*') && !p.contains('^'),
        FilterPart::AnyOf(_) => false,
    }
}

struct Parsed {
    line: String,
    net: Option<NetworkFilter>,
    cos: Option<CosmeticFilter>,
    conv: Option<Conv>,
}
fn parse_line(line: &str) -> Parsed {
    let l = line.to_string();
    let r = catch(move || parse_filter(&l, true, ParseOptions::default()));
    let mut p = Parsed { line: line.trim().to_string(), net: None, cos: None, conv: None };
    match r {
        Ok(Ok(ParsedFilter::Network(f))) => {
            p.conv = Some(convert_net(&f));
            p.net = Some(f)
        }
        Ok(Ok(ParsedFilter::Cosmetic(f))) => {
            p.conv = Some(convert_cos(&f));
            p.cos = Some(f)
        }
        _ => {}
    }
    p
}

type IntoResult = Result<Result<(Vec<CbRule>, Vec<String>), ()>, String>;
fn run_list(lines: &[String], debug: bool) -> IntoResult {
    let l2 = lines.to_vec();
    catch(move || {
        let mut fs = FilterSet::new(debug);
        fs.add_filters(&l2, ParseOptions::default());
        fs.into_content_blocking()
    })
}

// ------------------------------------------------------------------------------- entry points
/// How the `FilterSet` is created.
#[derive(Clone, Copy, Debug, PartialEq)]
enum Ctor {
    New(bool),
    /// `FilterSet::default()` = `FilterSet::new(false)` outside the crate's own tests
    Default,
}
/// One call on the `FilterSet` before `into_content_blocking()`.
#[derive(Clone, Debug)]
enum Op {
    /// `add_filter(line)`: one rule at a time
    AddFilter(String),
    /// `add_filters(lines)`
    AddFilters(Vec<String>),
    /// `add_filter_list(text)`
    AddFilterList(String),
    /// `set = set.clone()` (the derived Clone is public API too)
    CloneSet,
}
#[derive(Clone, Debug)]
struct Script {
    ctor: Ctor,
    ops: Vec<Op>,
}
impl Script {
    fn debug(&self) -> bool {
        self.ctor == Ctor::New(true)
    }
    /// The rule lines the set is given, in order, from the documented meaning of the entry points
    /// (a list text is split at line feeds, one carriage return before the line feed dropped).
    fn effective_lines(&self) -> Vec<String> {
        let mut v = vec![];
        for op in &self.ops {
            match op {
                Op::AddFilter(l) => v.push(l.clone()),
                Op::AddFilters(ls) => v.extend(ls.iter().cloned()),
                Op::AddFilterList(t) => {
                    let mut parts: Vec<&str> = t.split('\n').collect();
                    if parts.last() == Some(&"") {
                        parts.pop();
                    }
                    v.extend(parts.into_iter().map(|l| l.strip_suffix('\r').unwrap_or(l).to_string()));
                }
                Op::CloneSet => {}
            }
        }
        v
    }
    fn to_json(&self) -> Value {
        json!({
            "ctor": match self.ctor { Ctor::New(true) => "new_true", Ctor::New(false) => "new_false", Ctor::Default => "default" },
            "ops": self.ops.iter().map(|o| match o {
                Op::AddFilter(l) => json!({"op": "add_filter", "line": l}),
                Op::AddFilters(ls) => json!({"op": "add_filters", "lines": ls}),
                Op::AddFilterList(t) => json!({"op": "add_filter_list", "text": t}),
                Op::CloneSet => json!({"op": "clone"}),
            }).collect::<Vec<_>>(),
        })
    }
    fn from_json(v: &Value) -> Option<Script> {
        let ctor = match v["ctor"].as_str()? { "new_true" => Ctor::New(true), "new_false" => Ctor::New(false), _ => Ctor::Default };
        let mut ops = vec![];
        for o in v["ops"].as_array()? {
            ops.push(match o["op"].as_str()? {
                "add_filter" => Op::AddFilter(o["line"].as_str()?.to_string()),
                "add_filters" => Op::AddFilters(o["lines"].as_array()?.iter().map(|s| s.as_str().unwrap_or("").to_string()).collect()),
                "add_filter_list" => Op::AddFilterList(o["text"].as_str()?.to_string()),
                _ => Op::CloneSet,
            });
        }
        Some(Script { ctor, ops })
    }
    /// entry-point sequence as a short word, e.g. "new(true) 1 n L c 1"
    fn shape(&self) -> String {
        let mut s = match self.ctor { Ctor::New(b) => format!("new({})", b), Ctor::Default => "default()".to_string() };
        for o in &self.ops {
            s.push_str(match o { Op::AddFilter(_) => " add_filter", Op::AddFilters(_) => " add_filters", Op::AddFilterList(_) => " add_filter_list", Op::CloneSet => " clone" });
        }
        s
    }
}

/// Result of a script: what `add_filter` answered per call (true = Ok) and the conversion.
fn run_script(sc: &Script) -> Result<(Vec<(String, bool)>, Result<(Vec<CbRule>, Vec<String>), ()>), String> {
    let sc = sc.clone();
    catch(move || {
        let mut fs = match sc.ctor { Ctor::New(d) => FilterSet::new(d), Ctor::Default => FilterSet::default() };
        let mut answers = vec![];
        for op in &sc.ops {
            match op {
                Op::AddFilter(l) => answers.push((l.clone(), fs.add_filter(l, ParseOptions::default()).is_ok())),
                Op::AddFilters(ls) => { fs.add_filters(ls, ParseOptions::default()); }
                Op::AddFilterList(t) => { fs.add_filter_list(t, ParseOptions::default()); }
                Op::CloneSet => fs = fs.clone(),
            }
        }
        (answers, fs.into_content_blocking())
    })
}

/// Distribute `lines` over a random interleaving of the entry points.
fn gen_script(r: &mut Rng, lines: &[String], ctor: Ctor) -> Script {
    let mut ops = vec![];
    let mut i = 0;
    // one in five lists goes through a single entry point for the whole list
    let single = if r.chance(1, 5) { Some(r.below(3)) } else { None };
    while i < lines.len() {
        let kind = single.unwrap_or_else(|| r.below(3));
        let rest = lines.len() - i;
        // add_filter takes one line; the others a run of lines (sometimes none)
        let k = if kind == 0 { 1 } else if single.is_some() { rest } else if r.chance(1, 8) { 0 } else { r.range(1, rest) };
        let chunk = &lines[i..i + k];
        match kind {
            0 => ops.push(Op::AddFilter(chunk[0].clone())),
            1 => ops.push(Op::AddFilters(chunk.to_vec())),
            _ => {
                // list text: LF or CRLF, with or without a final newline, sometimes a comment / blank line
                let nl = if r.chance(1, 4) { "\r\n" } else { "\n" };
                let mut t = String::new();
                if r.chance(1, 6) {
                    t.push_str(r.pick(&["! Title: list", "[Adblock Plus 2.0]", "", "! Expires: 1 day"]));
                    t.push_str(nl);
                }
                t.push_str(&chunk.join(nl));
                if r.chance(1, 2) && !chunk.is_empty() {
                    t.push_str(nl);
                }
                ops.push(Op::AddFilterList(t));
            }
        }
        i += k;
        if r.chance(1, 10) {
            ops.push(Op::CloneSet);
        }
    }
    if r.chance(1, 12) {
        ops.push(match r.below(4) { 0 => Op::AddFilters(vec![]), 1 => Op::AddFilterList(String::new()), 2 => Op::CloneSet, _ => Op::AddFilter(String::new()) });
    }
    Script { ctor, ops }
}

/// JSON of a conversion result with the `resource-type` sets (hash sets: no order) sorted.
fn into_json(res: &IntoResult) -> Value {
    match res {
        Ok(Ok((rules, used))) => {
            let mut rv = json!(rules);
            for r in rv.as_array_mut().into_iter().flatten() {
                if let Some(a) = r.get_mut("trigger").and_then(|t| t.get_mut("resource-type")).and_then(|t| t.as_array_mut()) {
                    a.sort_by_key(|x| x.as_str().unwrap_or("").to_string());
                }
            }
            json!({"rules": rv, "filters_used": used})
        }
        Ok(Err(())) => json!("Err(())"),
        Err(p) => json!({"panic": p}),
    }
}

/// The entry-point oracle on one script: returns the failures and, for a debug set, the conversion
/// result (to be judged by `oracle_list` and the Coq list case on the effective lines).
fn oracle_script(sc: &Script) -> (Vec<String>, IntoResult) {
    let mut fails = vec![];
    let lines = sc.effective_lines();
    let (answers, res): (Vec<(String, bool)>, IntoResult) = match run_script(sc) {
        Err(p) => {
            fails.push(format!("{}: panicked: {}", sc.shape(), p));
            return (fails, Err(p));
        }
        Ok((a, r)) => (a, Ok(r)),
    };
    // add_filter answers Ok exactly for the lines that are rules
    for (l, ok) in &answers {
        let p = parse_line(l);
        if *ok != (p.net.is_some() || p.cos.is_some()) {
            fails.push(format!("add_filter({:?}) answered {} but parse_filter says the line is {}a rule", l, if *ok { "Ok" } else { "Err" }, if *ok { "not " } else { "" }));
        }
    }
    if sc.debug() {
        // the conversion does not depend on which entry points loaded the rules
        let canon = run_list(&lines, true);
        if into_json(&res) != into_json(&canon) {
            fails.push(format!("{}: into_content_blocking gives {} but FilterSet::new(true) + add_filters of the same lines gives {}", sc.shape(), into_json(&res), into_json(&canon)));
        }
    } else if !matches!(res, Ok(Err(()))) {
        // documented: "This function will fail if the FilterSet was not created in debug mode"
        fails.push(format!("{}: a set that is not in debug mode must be refused with Err(()), got {}", sc.shape(), into_json(&res)));
    }
    (fails, res)
}

const REQ_TYPES: &[&str] = &["script", "image", "document", "xhr", "subdocument", "other", "websocket", "stylesheet"];
fn rule_matches(f: &NetworkFilter, url: &str) -> bool {
    let host = url.split("://").nth(1).and_then(|r| r.split(|c| c == '/' || c == ':' || c == '?').next()).unwrap_or("x.test");
    for src in [format!("https://{}/page", host), "https://third.test/page".to_string(), "https://a.com/".to_string()] {
        for ty in REQ_TYPES {
            if let Ok(req) = Request::new(url, &src, ty) {
                // a request with an unsupported scheme (ftp:, httpzz:, ...) is never matched by the engine,
                // whatever NetworkFilter::matches says about it (C03/C12): not a URL "the rule matches"
                if !req.is_supported {
                    continue;
                }
                let mut rm = RegexManager::default();
                if f.matches(&req, &mut rm) {
                    return true;
                }
            }
        }
    }
    false
}
fn cb_regex(r: &CbRule) -> Result<regex::Regex, regex::Error> {
    regex::RegexBuilder::new(&r.trigger.url_filter)
        .case_insensitive(r.trigger.url_filter_is_case_sensitive != Some(true))
        .build()
}

/// The oracle on one list. Returns (class, what) for every failure.
fn oracle_list(lines: &[String], parsed: &[&Parsed], res: &IntoResult, singles: &mut HashMap<String, Option<bool>>) -> Vec<(Option<&'static str>, String)> {
    let mut fails = vec![];
    let (rules, used) = match res {
        Err(p) => {
            fails.push((None, format!("into_content_blocking panicked: {}", p)));
            return fails;
        }
        Ok(Err(())) => {
            fails.push((None, "into_content_blocking returned Err(()) on a debug FilterSet".to_string()));
            return fails;
        }
        Ok(Ok(x)) => x,
    };
    let mut seen_ignore = false;
    for (i, r) in rules.iter().enumerate() {
        for s in rule_strings(r) {
            if !s.is_ascii() {
                fails.push((None, format!("rule {} carries the non-ASCII string {:?}", i, s)));
            }
        }
        if (r.trigger.if_domain.is_some() && r.trigger.unless_domain.is_some()) || (r.trigger.if_top_url.is_some() && r.trigger.unless_top_url.is_some()) {
            fails.push((None, format!("rule {} has both an if- and an unless- list", i)));
        }
        let ign = matches!(r.action.typ, CbType::IgnorePreviousRules);
        if ign {
            seen_ignore = true
        } else if seen_ignore {
            fails.push((None, format!("rule {} ({:?}) comes after an ignore-previous-rules entry", i, r.action.typ)));
        }
        let f = &r.trigger.url_filter;
        if !safari_ok(f) {
            fails.push((None, format!("url-filter {:?} of rule {} is outside the Safari regex subset", f, i)));
        } else if let Err(e) = cb_regex(r) {
            fails.push((None, format!("url-filter {:?} does not compile: {}", f, e)));
        }
    }
    // filters_used exactness: which lines produce output when converted alone
    let mut expect_net = vec![];
    let mut expect_cos = vec![];
    let mut unknown = false;
    for p in parsed {
        if p.net.is_none() && p.cos.is_none() {
            continue;
        }
        let e = singles.entry(p.line.clone()).or_insert_with(|| match run_list(&[p.line.clone()], true) {
            Ok(Ok((r, u))) => Some(!r.is_empty() && !u.is_empty()),
            _ => None,
        });
        match e {
            Some(true) => {
                if p.net.is_some() {
                    expect_net.push(p.line.clone())
                } else {
                    expect_cos.push(p.line.clone())
                }
            }
            Some(false) => {}
            None => unknown = true,
        }
    }
    if !unknown {
        expect_net.extend(expect_cos);
        if &expect_net != used {
            fails.push((None, format!("filters_used = {:?} but the lines producing output alone are {:?}", used, expect_net)));
        }
    }
    // every used line is an input line
    for u in used {
        if !lines.iter().any(|l| l.trim() == u) {
            fails.push((None, format!("filters_used entry {:?} is not an input line", u)));
        }
    }
    fails
}

/// Inclusion for plain patterns: returns the first URL that the rule matches and the emitted filter does not.
fn inclusion_failure(f: &NetworkFilter, conv: &Conv, urls: &[String]) -> (u64, u64, Option<String>) {
    let Conv::Rules(rules) = conv else { return (0, 0, None) };
    let mut n = 0;
    let mut hit = 0;
    for u in urls {
        if !u.is_ascii() {
            continue;
        }
        if f3_scheme_false_positive(f, u) {
            continue;
        }
        n += 1;
        if !rule_matches(f, u) {
            continue;
        }
        hit += 1;
        for r in rules {
            match cb_regex(r) {
                Ok(re) => {
                    if !re.is_match(u) {
                        return (n, hit, Some(u.clone()));
                    }
                }
                Err(_) => {}
            }
        }
    }
    (n, hit, None)
}

/// Known-finding class: a rule without pattern, hostname and scheme restriction (`*$third-party`)
/// is exported as `^https?://`; the crate's matcher also applies it to ws:// and wss:// URLs.
fn ws_vs_scheme_only_class(f: &NetworkFilter, url: &str) -> bool {
    matches!(f.filter, FilterPart::Empty)
        && f.hostname.is_none()
        && has(f.mask, NetworkFilterMask::FROM_HTTP | NetworkFilterMask::FROM_HTTPS)
        && (url.starts_with("ws://") || url.starts_with("wss://"))
}
/// Not a C20 matter: a rule restricted to one of http/https (`|http://`) "matches" a websocket URL
/// only through the matcher defect F3 (C01/C03 known finding); such pairs are skipped.
fn f3_scheme_false_positive(f: &NetworkFilter, url: &str) -> bool {
    has(f.mask, NetworkFilterMask::FROM_HTTP) != has(f.mask, NetworkFilterMask::FROM_HTTPS)
        && (url.starts_with("ws://") || url.starts_with("wss://"))
}

/// Known-finding class: the rule's hostname starts with a dot (`||.com`): the crate's hostname
/// anchoring accepts the dot itself as the label boundary (x.com), the exported prefix
/// `([^/]+\.)?` followed by `\.com` needs two dots.
fn leading_dot_hostname_class(f: &NetworkFilter) -> bool {
    f.hostname.as_ref().map_or(false, |h| h.starts_with('.'))
}

fn userinfo_url(u: &str) -> bool {
    u.split("://").nth(1).map_or(false, |r| r.split('/').next().unwrap_or("").contains('@'))
}

fn gen_urls(r: &mut Rng, line: &str) -> Vec<String> {
    let mut v = vec![];
    for _ in 0..3 {
        v.push(gen::url_for(r, line));
    }
    for _ in 0..2 {
        v.push(gen::url(r));
    }
    if r.chance(1, 12) {
        // credentials in the authority (known finding C20_userinfo_url when the rule is host-anchored)
        if let Some(u) = v.first().cloned() {
            v.push(u.replacen("://", "://user:pw@", 1));
        }
    }
    // case variation: the request is lowercased by the engine, Safari matches case-insensitively
    if let Some(u) = v.first().cloned() {
        v.push(u.to_uppercase().replacen("HTTPS://", "https://", 1).replacen("HTTP://", "http://", 1));
    }
    v
}

fn replay(a: &Args, p: &std::path::Path) {
    let v: Value = serde_json::from_str(&std::fs::read_to_string(p).unwrap()).unwrap();
    let rp = &v["replay"];
    let lines: Vec<String> = rp["lines"].as_array().map(|x| x.iter().map(|s| s.as_str().unwrap_or("").to_string()).collect()).unwrap_or_default();
    let mut bad = false;
    if let Some(url) = rp["url"].as_str() {
        let p = parse_line(&lines[0]);
        if let (Some(f), Some(c)) = (&p.net, &p.conv) {
            let (_, hit, fail) = inclusion_failure(f, c, &[url.to_string()]);
            println!("line={:?} url={:?} rule matches={} emitted={} uncovered={:?}", lines[0], url, hit > 0, conv_json(c), fail);
            bad = fail.is_some();
        }
    } else {
        // entry-point sequence: from the replay when present; older replays have the lines only
        // (FilterSet::new(debug) + add_filters)
        let script = Script::from_json(rp).unwrap_or_else(|| Script {
            ctor: Ctor::New(rp["debug"].as_bool().unwrap_or(true)),
            ops: vec![Op::AddFilters(lines.clone())],
        });
        let lines = script.effective_lines();
        println!("entry points: {}", script.shape());
        for o in &script.ops {
            println!("  {:?}", o);
        }
        let (sfails, res) = oracle_script(&script);
        for w in sfails {
            println!("FAIL class=None: {}", w);
            bad = true;
        }
        let parsed: Vec<Parsed> = lines.iter().map(|l| parse_line(l)).collect();
        let refs: Vec<&Parsed> = parsed.iter().collect();
        match &res {
            Ok(Ok((r, u))) => println!("rules={} used={:?}", serde_json::to_string(r).unwrap(), u),
            Ok(Err(())) => println!("Err(())"),
            Err(p) => println!("PANIC: {}", p),
        }
        let mut singles = HashMap::new();
        if script.debug() {
            for (c, w) in oracle_list(&lines, &refs, &res, &mut singles) {
                println!("FAIL class={:?}: {}", c, w);
                bad = true;
            }
        }
    }
    let _ = a;
    if bad {
        println!("VIOLATION property=C20 replay={}", p.display());
        std::process::exit(1);
    }
}

fn main() {
    let a = args();
    if let Some(p) = &a.replay {
        replay(&a, p);
        return;
    }
    let mut r = Rng::new(a.seed);
    let mut cs = Cases::new(&a.out, "Generated C20_Model");
    cs.shard = 150;
    let mut sm = Summary::default();
    sm.rule = "every list reaches the FilterSet through a random interleaving of the public entry points (add_filter one rule at a time, add_filters on runs of 0-n lines, add_filter_list on LF/CRLF texts with and without final newline / comment lines, clone in between; one list in five through a single entry point), once on FilterSet::new(true) (must convert exactly like new(true)+add_filters of the same lines, add_filter answering Ok exactly for rules) and once on FilterSet::new(false) / FilterSet::default() (must be refused with Err(()), never panic); lists of 1-8 lines (network rules from the shared grammar plus C20 shapes: regex metacharacters, domain=/from= lists mixing ~ / IDN / U+200D / Kelvin sign, /re/ rules, scheme-only rules, separator-only patterns, every option kind, $ inside the pattern; cosmetic rules with hostname/entity/negated/IDN/regex locations, ##, #@#, procedural, :style, +js; junk and comments). One case per distinct parsed line (conversion result field by field / error variant / panic) and one per list (rules in order + filters_used). non-trivial = the conversion emitted at least one rule (per line) / the list emitted rules from at least two lines or both block and ignore-previous entries (per list)".into();
    let mut seen: HashSet<String> = HashSet::new();
    let mut singles: HashMap<String, Option<bool>> = HashMap::new();
    let n_lists = 450 * a.scale;
    let (mut incl_urls, mut incl_hits, mut incl_rules) = (0u64, 0u64, 0u64);

    // fixed corpus first: the findings' inputs and the old F19 input
    let mut corpus: Vec<Vec<String>> = vec![
        vec!["ads$domain=\u{200d}.com".into()],
        vec!["|ws://$~websocket".into()],
        vec!["*^".into()],
        vec!["||.com".into(), "*$third-party".into()],
        vec!["@@||x.com^$generichide".into(), "##.ad".into(), "example.com##.ad".into(), "example.com#@#.ad".into(), "@@||good.com^".into(), "||ads.net^".into()],
        vec!["||example.com^$document".into(), "ads$important".into(), "@@ads$image".into(), "/ads[0-9]/".into()],
    ];
    corpus.reverse();

    for li in 0..n_lists + corpus.len() {
        let lines: Vec<String> = if let Some(c) = corpus.pop() {
            c
        } else {
            let n = r.range(1, 8);
            (0..n).map(|_| c20_line(&mut r)).collect()
        };
        let _ = li;
        // the list reaches the set through a random interleaving of the public entry points; from
        // here on `lines` are the lines the set was given (a list text split into its lines)
        let script = gen_script(&mut r, &lines, Ctor::New(true));
        let lines = script.effective_lines();
        cs.stat("entry_point_script");
        {
            let (mut f, mut fs, mut fl, mut c) = (0, 0, 0, 0);
            for o in &script.ops {
                match o { Op::AddFilter(_) => f += 1, Op::AddFilters(_) => fs += 1, Op::AddFilterList(_) => fl += 1, Op::CloneSet => c += 1 }
            }
            for (n, k) in [(f, "entry_add_filter_calls"), (fs, "entry_add_filters_calls"), (fl, "entry_add_filter_list_calls"), (c, "entry_clone_calls")] {
                for _ in 0..n { cs.stat(k) }
            }
            let kinds = (f > 0) as usize + (fs > 0) as usize + (fl > 0) as usize;
            cs.stat(match kinds { 0 | 1 => "entry_script_single_entry_point", 2 => "entry_script_two_entry_points", _ => "entry_script_three_entry_points" });
        }
        let parsed: Vec<Parsed> = lines.iter().map(|l| parse_line(l)).collect();
        // ---------------- per-line cases
        for p in &parsed {
            let Some(conv) = &p.conv else {
                cs.stat("line_not_parsed");
                continue;
            };
            if !seen.insert(p.line.clone()) {
                continue;
            }
            let mut t = vec![];
            let (expr, kind) = if let Some(f) = &p.net {
                norm_table(&p.line, &mut t);
                (format!("conv_out_eqb (conv_out (convert_network {} {})) {}", table_lit(&t), net_record(f), conv_lit(conv)), "network")
            } else {
                let f = p.cos.as_ref().unwrap();
                idna_table(&p.line, &mut t);
                (format!("conv_out_eqb (conv_out (one (convert_cosmetic {} {}))) {}", table_lit(&t), cos_record(f), conv_lit(conv)), "cosmetic")
            };
            match conv {
                Conv::Rules(v) => cs.stat(&format!("{}_ok_{}", kind, v.len())),
                Conv::Err(e) => cs.stat(&format!("{}_err_{}", kind, e.split('(').next().unwrap_or(""))),
                Conv::Panic(_) => cs.stat(&format!("{}_panic", kind)),
            }
            let desc = json!({"kind": kind, "line": p.line, "impl": conv_json(conv),
                "mask": p.net.as_ref().map(|f| f.mask.bits()), "hostname": p.net.as_ref().and_then(|f| f.hostname.clone()),
                "filter": p.net.as_ref().and_then(|f| f.filter.string_view())});
            cs.case(expr, desc, matches!(conv, Conv::Rules(_)));
            // parser invariants the theorems assume (checked on every parsed rule)
            if let Some(f) = &p.net {
                sm.oracle_evaluations += 1;
                // the two findings fixed by 26d3d76 are ordinary inputs: a regression is a violation
                if lost_scheme_shape(f) {
                    cs.stat("shape_all_scheme_bits_lost");
                    if !matches!(conv, Conv::Err(e) if e.starts_with("NoSupportedNetworkOptions")) {
                        sm.failure(None, &format!("rule {:?} has lost every scheme bit: expected the error NoSupportedNetworkOptions, got {}", p.line, conv_json(conv)), json!({"lines": [p.line]}));
                    }
                }
                if separator_only_shape(f) {
                    cs.stat("shape_separator_only_pattern");
                }
                if let Conv::Panic(m) = conv {
                    sm.failure(None, &format!("conversion of {:?} panicked: {}", p.line, m), json!({"lines": [p.line]}));
                }
                if let Conv::Rules(v) = conv {
                    if v.iter().any(|r| r.trigger.url_filter.is_empty()) {
                        sm.failure(None, &format!("rule {:?} is exported with an empty url-filter", p.line), json!({"lines": [p.line]}));
                    }
                }
                if let Some(h) = &f.hostname {
                    if h.contains('*') || h.contains('/') || h.contains('^') || !h.is_ascii() {
                        sm.failure(None, &format!("parser invariant: hostname {:?} contains a wildcard/separator/non-ASCII", h), json!({"lines": [p.line]}));
                    }
                }
                if (f.opt_domains.is_some() || f.opt_not_domains.is_some()) && !p.line.contains('$') {
                    sm.failure(None, "parser invariant: domain option without '$' in the raw line", json!({"lines": [p.line]}));
                }
                if f.raw_line.as_ref().map(|b| b.as_str()) != Some(p.line.as_str()) {
                    sm.failure(None, "parser invariant: raw_line is not the trimmed input line", json!({"lines": [p.line]}));
                }
                // inclusion for plain patterns
                if plain_shape(f) && matches!(conv, Conv::Rules(_)) {
                    let urls = gen_urls(&mut r, &p.line);
                    let (n, hit, fail) = inclusion_failure(f, conv, &urls);
                    incl_urls += n;
                    incl_hits += hit;
                    incl_rules += 1;
                    sm.oracle_evaluations += n;
                    if let Some(u) = fail {
                        let class = if userinfo_url(&u) {
                            Some("C20_userinfo_url")
                        } else if leading_dot_hostname_class(f) {
                            Some("C20_leading_dot_hostname")
                        } else if ws_vs_scheme_only_class(f, &u) {
                            Some("C20_patternless_rule_misses_websocket_urls")
                        } else {
                            None
                        };
                        sm.failure(class, &format!("rule {:?} matches {:?} but the emitted url-filter does not", p.line, u), json!({"lines": [p.line], "url": u}));
                    }
                }
            }
        }
        // ---------------- list case
        let (sfails, res) = oracle_script(&script);
        sm.oracle_evaluations += 2;
        let mut replay = script.to_json();
        replay["lines"] = json!(lines);
        for what in sfails {
            sm.failure(None, &what, replay.clone());
        }
        let refs: Vec<&Parsed> = parsed.iter().collect();
        for (class, what) in oracle_list(&lines, &refs, &res, &mut singles) {
            // (a panic is already reported by the entry-point oracle, with the same replay)
            if !what.starts_with("into_content_blocking panicked") {
                sm.failure(class, &what, replay.clone());
            }
        }
        // the same calls on a set that is not in debug mode: refused, whatever loaded the rules
        {
            let nd = Script { ctor: if r.chance(1, 3) { Ctor::Default } else { Ctor::New(false) }, ops: script.ops.clone() };
            cs.stat(if nd.ctor == Ctor::Default { "entry_script_default_ctor_refused" } else { "entry_script_new_false_refused" });
            sm.oracle_evaluations += 1;
            let (nfails, _) = oracle_script(&nd);
            let mut nreplay = nd.to_json();
            nreplay["lines"] = json!(lines);
            for what in nfails {
                sm.failure(None, &what, nreplay.clone());
            }
        }
        let mut tn = vec![];
        let mut ti = vec![];
        let mut nets = vec![];
        let mut coss = vec![];
        for p in &parsed {
            if let Some(f) = &p.net {
                norm_table(&p.line, &mut tn);
                nets.push(net_record(f));
            }
            if let Some(f) = &p.cos {
                idna_table(&p.line, &mut ti);
                coss.push(cos_record(f));
            }
        }
        let (lit, nontrivial) = match &res {
            Err(_) => {
                cs.stat("list_panic");
                ("(Panic \"\")".to_string(), false)
            }
            Ok(Err(())) => ("(Ok None)".to_string(), false),
            Ok(Ok((rules, used))) => {
                let ign = rules.iter().filter(|x| matches!(x.action.typ, CbType::IgnorePreviousRules)).count();
                cs.stat(if rules.is_empty() { "list_no_output" } else { "list_output" });
                (
                    format!("(Ok (Some ({}, {})))", clist(rules, |x| out_rule(x)), cstrs(used)),
                    used.len() >= 2 || (ign >= 2 && ign < rules.len()),
                )
            }
        };
        let expr = format!(
            "into_out_eqb (into_out (into_content_blocking {} {} true [{}] [{}])) {}",
            table_lit(&tn), table_lit(&ti), nets.join("; "), coss.join("; "), lit
        );
        let desc = json!({"kind": "list", "lines": lines, "entry_points": script.to_json(), "impl": match &res {
            Ok(Ok((rules, used))) => json!({"rules": rules, "filters_used": used}),
            Ok(Err(())) => json!("Err(())"),
            Err(p) => json!({"panic": p}),
        }});
        cs.case(expr, desc, nontrivial);
    }
    // fixed inclusion probes: the inputs of the three inclusion findings, so that every run sees them
    for (line, url) in [("||.com", "http://x.com/"), ("*$third-party", "wss://x.com/"), ("||example.com^", "https://user:pw@example.com/x"), ("||a", "s://u@a")] {
        let p = parse_line(line);
        if let (Some(f), Some(c)) = (&p.net, &p.conv) {
            let (n, _, fail) = inclusion_failure(f, c, &[url.to_string()]);
            sm.oracle_evaluations += n;
            if let Some(u) = fail {
                let class = if userinfo_url(&u) {
                    Some("C20_userinfo_url")
                } else if leading_dot_hostname_class(f) {
                    Some("C20_leading_dot_hostname")
                } else if ws_vs_scheme_only_class(f, &u) {
                    Some("C20_patternless_rule_misses_websocket_urls")
                } else {
                    None
                };
                sm.failure(class, &format!("rule {:?} matches {:?} but the emitted url-filter does not", line, u), json!({"lines": [line], "url": u}));
            }
        }
    }
    sm.extra.insert("inclusion_plain_rules".into(), json!(incl_rules));
    sm.extra.insert("inclusion_urls".into(), json!(incl_urls));
    sm.extra.insert("inclusion_urls_matched_by_rule".into(), json!(incl_hits));
    sm.extra.insert("distinct_lines".into(), json!(seen.len()));
    cs.finish();
    sm.write(&a.out, &cs);
}
