//! Resource construction helpers (`Resource::simple` is test-only in the crate).
use adblock::resources::{MimeType, PermissionMask, Resource, ResourceType};

pub fn b64(data: &[u8]) -> String {
    const T: &[u8; 64] = b"ABCDEFGHIJKLMNOPQRSTUVWXYZabcdefghijklmnopqrstuvwxyz0123456789+/";
    let mut o = String::new();
    for c in data.chunks(3) {
        let n = ((c[0] as u32) << 16) | ((*c.get(1).unwrap_or(&0) as u32) << 8) | (*c.get(2).unwrap_or(&0) as u32);
        o.push(T[(n >> 18) as usize & 63] as char);
        o.push(T[(n >> 12) as usize & 63] as char);
        o.push(if c.len() > 1 { T[(n >> 6) as usize & 63] as char } else { '=' });
        o.push(if c.len() > 2 { T[n as usize & 63] as char } else { '=' });
    }
    o
}
pub fn resource(name: &str, kind: MimeType, content: &str) -> Resource {
    Resource {
        name: name.to_string(),
        aliases: vec![],
        kind: ResourceType::Mime(kind),
        content: b64(content.as_bytes()),
        dependencies: vec![],
        permission: Default::default(),
    }
}
pub fn resource_full(name: &str, aliases: &[&str], kind: ResourceType, content: &str, deps: &[&str], perm: u8) -> Resource {
    Resource {
        name: name.to_string(),
        aliases: aliases.iter().map(|s| s.to_string()).collect(),
        kind,
        content: b64(content.as_bytes()),
        dependencies: deps.iter().map(|s| s.to_string()).collect(),
        permission: PermissionMask::from_bits(perm),
    }
}
