//! C19 — the thread-safe build under load.  `c19_sync --plan plan.json --out results.json`
//!
//! For every run of the plan: build the rules/queries of the run seed (common.rs), answer every
//! thread's queries sequentially on one engine (thread-safe build, one thread), then share a second
//! engine (`Arc<Engine>`) between N threads that run the same query lists concurrently, with an
//! aggressive regex discard policy so that compile / discard / cleanup happen inside nearly every
//! critical section, plus "noise" operations that also take the lock (policy changes, debug-info
//! snapshots, explicit discards).  Reported per run: per-thread digests of the canonical answers
//! (sequential and concurrent), the first mismatches in full, panics, whether one more query after
//! the run succeeds (a poisoned mutex would panic), the order of the first tickets, and a dump of
//! the regex cache.  A watchdog turns a hang into exit code 3.
//!
//! Policy runs (`"policy": {"full": bool, "per": n}` in the run record): the run's queries are cut
//! into phases of `per` queries per thread; phase k starts with `set_regex_discard_policy` of the
//! k-th policy of a seeded script over EXTREME durations (0, 1 ns, 1 ms, 1 s, 1 h, u64::MAX/2 s,
//! Duration::MAX for both fields; `full` = both fields walk through all 49 ordered pairs).  The
//! script is walked twice: on one thread (policy set before the first and between later queries,
//! through `Engine` and through `Blocker`), and on the shared engine, where after a barrier one
//! thread (in turn) sets the policy WHILE the others already run the phase's queries.  Every
//! answer is compared with the sequential reference; policy calls and queries are registered as
//! in-flight operations, and the watchdog reports the operation that does not return
//! (`C19-STUCK {json}` on stderr, exit code 3).
mod common;
use common::*;

use adblock::Engine;
use serde_json::{json, Value};
use std::panic::{catch_unwind, AssertUnwindSafe};
use std::sync::atomic::{AtomicBool, AtomicU32, AtomicU64, AtomicUsize, Ordering};
use std::sync::{Arc, Barrier, Mutex};
use std::time::{Duration, Instant};

// compile-time: the engine of this build can be shared and sent
fn _assert_send_sync() {
    fn is_send<T: Send>() {}
    fn is_sync<T: Sync>() {}
    is_send::<Engine>();
    is_sync::<Engine>();
    is_send::<Arc<Engine>>();
}

fn panic_message(e: Box<dyn std::any::Any + Send>) -> String {
    if let Some(s) = e.downcast_ref::<&str>() {
        s.to_string()
    } else if let Some(s) = e.downcast_ref::<String>() {
        s.clone()
    } else {
        "panic".to_string()
    }
}

// ---------------------------------------------------------------- in-flight operations (policy runs)
static INFLIGHT: Mutex<Vec<(u64, usize, usize, Instant, String)>> = Mutex::new(Vec::new());
static OP_ID: AtomicU64 = AtomicU64::new(1);
/// Register an operation that is about to start; `op_done` removes it.  The watchdog reports the
/// operations that stay registered longer than the plan's `op_seconds`.
fn op_start(run: usize, thread: usize, what: impl FnOnce() -> String) -> u64 {
    let id = OP_ID.fetch_add(1, Ordering::Relaxed);
    INFLIGHT.lock().unwrap_or_else(|e| e.into_inner()).push((id, run, thread, Instant::now(), what()));
    id
}
fn op_done(id: u64) {
    let mut g = INFLIGHT.lock().unwrap_or_else(|e| e.into_inner());
    if let Some(p) = g.iter().position(|x| x.0 == id) {
        g.swap_remove(p);
    }
}

struct ThreadOut {
    digest: u64,
    bits: Vec<bool>,
    mismatches: Vec<Value>,
    panics: Vec<Value>,
    noise_ops: usize,
    policy_calls: usize,
    /// in-run snapshots of the cache: entries seen compiled / compiled with a regex text that is
    /// not the one of the rule at that address
    seen_compiled: usize,
    seen_bad: usize,
}

fn run_one(ri: usize, spec: &RunSpec, prefix: usize, noise: bool, full: bool, policy: Option<&PolicyPlan>, progress: &AtomicU64) -> Value {
    let t0 = Instant::now();
    let w = gen_workload(spec);
    // --- sequential reference on the thread-safe build
    let seq_engine = build_engine(&w);
    let mut seq_digest = vec![];
    let mut seq_answers: Vec<Vec<String>> = vec![];
    let mut seq_bits: Vec<Vec<bool>> = vec![];
    for qs in &w.queries {
        let (h, v, b) = run_sequential(&seq_engine, qs, true);
        seq_digest.push(h);
        seq_answers.push(v);
        seq_bits.push(b);
        progress.fetch_add(1, Ordering::Relaxed);
    }
    drop(seq_engine);
    let t_seq = t0.elapsed();
    let seq_panics: Vec<Value> = seq_answers.iter().enumerate()
        .flat_map(|(ti, v)| v.iter().enumerate().filter(|(_, a)| a.starts_with("PANIC")).take(1)
            .map(move |(qi, a)| json!({"thread": ti, "index": qi, "where": "sequential (thread-safe build, one thread)", "message": a})).collect::<Vec<_>>())
        .take(3).collect();

    // --- policy run: the script walked on ONE thread (thread-safe build)
    let mut policy_seq = None;
    if let Some(plan) = policy {
        let mut pe = build_engine(&w);
        let mut cur: Option<u64> = None;
        let (pa, set_panics) = policy_sequential(&mut pe, &w, plan, &mut |what| match what {
            Some(t) => cur = Some(op_start(ri, usize::MAX, || t)),
            None => {
                if let Some(id) = cur.take() {
                    op_done(id);
                }
            }
        });
        let mut mism: Vec<Value> = vec![];
        for (ti, v) in pa.iter().enumerate() {
            for (qi, a) in v.iter().enumerate() {
                if *a != seq_answers[ti][qi] && mism.len() < 3 {
                    let k = qi / plan.per;
                    mism.push(json!({"thread_list": ti, "index": qi, "phase": k, "policy": plan.script[k.min(plan.script.len() - 1)].describe(),
                        "query": w.queries[ti][qi].describe(), "reference": seq_answers[ti][qi], "after_policy_change": a}));
                }
            }
            progress.fetch_add(1, Ordering::Relaxed);
        }
        policy_seq = Some(json!({
            "digest": pa.iter().map(|v| format!("{:016x}", digest_of(v))).collect::<Vec<_>>(),
            "mismatches": mism, "set_panics": set_panics,
            "set_calls": plan.script.iter().map(|p| (if p.twice { 2 } else { 1 }) + if p.mid && plan.per > 1 { if p.twice { 2 } else { 1 } } else { 0 }).sum::<usize>(),
        }));
    }

    // --- concurrent run on one shared engine
    let engine = Arc::new(build_engine(&w));
    let addrs = rule_addresses(&engine, &w.rules);
    let ticket = AtomicUsize::new(0);
    let order: Vec<AtomicU32> = (0..spec.threads * spec.queries).map(|_| AtomicU32::new(u32::MAX)).collect();
    let barrier = Barrier::new(spec.threads);
    let stop_on_panic = AtomicBool::new(false);
    let outs: Mutex<Vec<(usize, ThreadOut)>> = Mutex::new(vec![]);
    let t1 = Instant::now();
    std::thread::scope(|sc| {
        for (ti, qs) in w.queries.iter().enumerate() {
            let engine = Arc::clone(&engine);
            let (ticket, order, barrier, outs, stop_on_panic, addrs) = (&ticket, &order, &barrier, &outs, &stop_on_panic, &addrs);
            let seq = &seq_answers[ti];
            let seed = spec.seed;
            let threads_n = spec.threads;
            sc.spawn(move || {
                let mut nr = XRng::new(seed ^ (0xC19 + ti as u64 * 7919));
                let mut out = ThreadOut { digest: FNV0, bits: Vec::with_capacity(qs.len()), mismatches: vec![], panics: vec![], noise_ops: 0, policy_calls: 0, seen_compiled: 0, seen_bad: 0 };
                barrier.wait();
                for (qi, q) in qs.iter().enumerate() {
                    // policy run: at a phase boundary all threads meet; then ONE thread (in turn)
                    // sets the phase's policy while the others already run the phase's queries
                    let phase = policy.map(|plan| (qi / plan.per, &plan.script[(qi / plan.per).min(plan.script.len() - 1)], plan.per));
                    if let Some((k, ph, per)) = phase {
                        if qi % per == 0 {
                            barrier.wait();
                        }
                        let setter = k % threads_n == ti;
                        if setter && (qi % per == 0 || (ph.mid && per > 1 && qi % per == per / 2)) {
                            for _ in 0..(if ph.twice { 2 } else { 1 }) {
                                let id = op_start(ri, ti, || format!("set_regex_discard_policy({}) via Blocker (&self) before query {} (phase {}), other threads querying", ph.describe(), qi, k));
                                let r = catch_unwind(AssertUnwindSafe(|| engine.verif_blocker().set_regex_discard_policy(ph.policy())));
                                op_done(id);
                                out.policy_calls += 1;
                                if let Err(e) = r {
                                    if out.panics.len() < 3 {
                                        out.panics.push(json!({"thread": ti, "index": qi, "where": format!("set_regex_discard_policy({})", ph.describe()), "message": panic_message(e)}));
                                    }
                                }
                            }
                        }
                    }
                    if noise {
                        match nr.below(40) {
                            0 => {
                                let p = if nr.chance(1, 2) { aggressive_policy() } else { mild_policy() };
                                let _ = catch_unwind(AssertUnwindSafe(|| engine.verif_blocker().set_regex_discard_policy(p)));
                                out.noise_ops += 1;
                            }
                            1 => {
                                let (mut sc_, mut sb_) = (0, 0);
                                let r = catch_unwind(AssertUnwindSafe(|| {
                                    let info = engine.get_regex_debug_info();
                                    for en in &info.regex_data {
                                        if let Some(t) = &en.regex {
                                            sc_ += 1;
                                            if !addrs.iter().any(|(a, _, text)| *a == en.id && text == t) {
                                                sb_ += 1;
                                            }
                                        }
                                    }
                                    if !info.regex_data.is_empty() {
                                        let id = info.regex_data[nr.below(info.regex_data.len())].id;
                                        engine.verif_blocker().discard_regex(id);
                                    }
                                }));
                                if let Err(e) = r {
                                    out.panics.push(json!({"thread": ti, "index": qi, "where": "noise", "message": panic_message(e)}));
                                }
                                out.seen_compiled += sc_;
                                out.seen_bad += sb_;
                                out.noise_ops += 1;
                            }
                            2 => std::thread::yield_now(),
                            3 => std::thread::sleep(Duration::from_micros(nr.below(30) as u64)),
                            _ => {}
                        }
                    }
                    let t = ticket.fetch_add(1, Ordering::SeqCst);
                    if t < order.len() {
                        order[t].store(ti as u32, Ordering::SeqCst);
                    }
                    let op = phase.map(|(k, ph, _)| op_start(ri, ti, || format!("query {} ({}) in phase {} under policy {}", qi, q.describe(), k, ph.describe())));
                    let answered = catch_unwind(AssertUnwindSafe(|| answer(&engine, q)));
                    if let Some(id) = op {
                        op_done(id);
                    }
                    match answered {
                        Ok((a, b)) => {
                            out.digest = fnv(out.digest, &a);
                            out.bits.push(b);
                            if a != seq[qi] && out.mismatches.len() < 3 {
                                let mut m = json!({"thread": ti, "index": qi, "query": q.describe(),
                                    "sequential": seq[qi], "concurrent": a});
                                if let Some((k, ph, _)) = phase {
                                    m["phase"] = json!(k);
                                    m["policy"] = json!(ph.describe());
                                }
                                out.mismatches.push(m);
                            }
                        }
                        Err(e) => {
                            out.digest = fnv(out.digest, "PANIC");
                            out.bits.push(false);
                            if out.panics.len() < 3 {
                                let mut m = json!({"thread": ti, "index": qi, "query": q.describe(), "message": panic_message(e)});
                                if let Some((k, ph, _)) = phase {
                                    m["phase"] = json!(k);
                                    m["policy"] = json!(ph.describe());
                                }
                                out.panics.push(m);
                            }
                            stop_on_panic.store(true, Ordering::SeqCst);
                        }
                    }
                    progress.fetch_add(1, Ordering::Relaxed);
                }
                outs.lock().unwrap().push((ti, out));
            });
        }
    });
    let t_conc = t1.elapsed();
    let mut outs = outs.into_inner().unwrap();
    outs.sort_by_key(|(i, _)| *i);

    // --- after the run: the lock must still be usable (not poisoned), answers still the same
    // (policy switch first: its own critical section still cleans up under the old policy, then
    // nothing is discarded any more, so the dump below shows what the post queries compiled)
    let post = catch_unwind(AssertUnwindSafe(|| {
        engine.verif_blocker().set_regex_discard_policy(lenient_policy());
        let mut ok = true;
        for (ti, qs) in w.queries.iter().enumerate() {
            for (qi, q) in qs.iter().take(POST_QUERIES).enumerate() {
                ok &= answer(&engine, q).0 == seq_answers[ti][qi];
            }
        }
        ok
    }));
    let (post_ok, post_msg) = match post {
        Ok(b) => (b, if b { String::new() } else { "post-run answers differ".to_string() }),
        Err(e) => (false, format!("post-run query panicked: {}", panic_message(e))),
    };
    let snap = catch_unwind(AssertUnwindSafe(|| cache_snapshot(&engine, &addrs))).unwrap_or_default();
    let bad_entries: Vec<Value> = snap.iter().filter(|e| !e.2 || e.0 == usize::MAX && spec.mode == Mode::Pure)
        .map(|e| json!({"rule": if e.0 == usize::MAX { -1 } else { e.0 as i64 }, "compiled": e.1, "text_ok": e.2})).collect();

    let conc_digest: Vec<String> = outs.iter().map(|(_, o)| format!("{:016x}", o.digest)).collect();
    let mismatches: Vec<Value> = outs.iter().flat_map(|(_, o)| o.mismatches.clone()).collect();
    let mut panics: Vec<Value> = outs.iter().flat_map(|(_, o)| o.panics.clone()).collect();
    panics.extend(seq_panics);
    let all_tickets: Vec<u32> = order.iter().map(|a| a.load(Ordering::SeqCst)).take_while(|x| *x != u32::MAX).collect();
    // how interleaved the run really was: number of positions where the ticket holder changes
    let switches = all_tickets.windows(2).filter(|w| w[0] != w[1]).count();
    let tickets: Vec<u32> = all_tickets.iter().take(prefix).cloned().collect();
    let mut res = json!({
        "seed": spec.seed, "mode": spec.mode.name(), "threads": spec.threads, "queries": spec.queries,
        "rules": w.rules.len(), "optimize": w.optimize,
        "seq_digest": seq_digest.iter().map(|h| format!("{:016x}", h)).collect::<Vec<_>>(),
        "conc_digest": conc_digest,
        "mismatches": mismatches, "panics": panics,
        "post_ok": post_ok, "post_msg": post_msg,
        "tickets": tickets, "ticket_switches": switches, "tickets_total": all_tickets.len(),
        "cache_entries": snap.len(),
        "cache_compiled": snap.iter().filter(|e| e.1).count(),
        "cache_usage_total": snap.iter().map(|e| e.3).sum::<usize>(),
        "cache_bad_entries": bad_entries,
        "noise_ops": outs.iter().map(|(_, o)| o.noise_ops).sum::<usize>(),
        "inrun_compiled_seen": outs.iter().map(|(_, o)| o.seen_compiled).sum::<usize>(),
        "inrun_bad_seen": outs.iter().map(|(_, o)| o.seen_bad).sum::<usize>(),
        "seq_ms": t_seq.as_millis() as u64, "conc_ms": t_conc.as_millis() as u64,
    });
    if let (Some(plan), Some(ps)) = (policy, policy_seq) {
        res["policy"] = json!({
            "phases": plan.script.len(), "per": plan.per,
            "script": plan.script.iter().map(|p| p.describe()).collect::<Vec<_>>(),
            "sequential": ps,
            "concurrent_set_calls": outs.iter().map(|(_, o)| o.policy_calls).sum::<usize>(),
        });
    }
    // exclusive phase: &mut self methods lock the same mutex (clear() after re-tagging)
    let retag = match Arc::try_unwrap(engine) {
        Ok(mut e) => catch_unwind(AssertUnwindSafe(|| {
            if policy.is_some() {
                // exclusive phase of a policy run: the longest policy through `&mut Engine`, twice
                e.set_regex_discard_policy(adblock::regex_manager::RegexManagerDiscardPolicy { cleanup_interval: extreme(6), discard_unused_time: extreme(6) });
                e.set_regex_discard_policy(adblock::regex_manager::RegexManagerDiscardPolicy { cleanup_interval: extreme(1), discard_unused_time: extreme(6) });
            }
            let h = retag_and_query(&mut e, &w);
            // a SECOND shared phase after a tag switch: the tagged rules were freed and allocated
            // again (use_tags([]) then use_tags([t1, t2])); fresh threads then query the shared
            // engine, each answer against a fresh engine under those tags asked by one thread
            e.use_tags(&[]);
            e.use_tags(&["t1", "t2"]);
            let mut fresh = build_engine(&w);
            fresh.use_tags(&["t1", "t2"]);
            let want: Vec<Vec<String>> = w.queries.iter().map(|qs| qs.iter().take(8).map(|q| answer(&fresh, q).0).collect()).collect();
            let shared = Arc::new(e);
            let bad: Mutex<Vec<Value>> = Mutex::new(vec![]);
            std::thread::scope(|sc| {
                for (ti, qs) in w.queries.iter().enumerate() {
                    let (shared, bad, want) = (shared.clone(), &bad, &want);
                    sc.spawn(move || {
                        for (qi, q) in qs.iter().take(8).enumerate() {
                            let a = answer(&shared, q).0;
                            if a != want[ti][qi] {
                                let mut b = bad.lock().unwrap();
                                if b.len() < 3 {
                                    b.push(json!({"thread": ti, "index": qi, "query": q.describe(), "fresh_engine_one_thread": want[ti][qi], "shared_engine_after_tag_switch": a}));
                                }
                            }
                        }
                    });
                }
            });
            (h, bad.into_inner().unwrap())
        })).map_err(panic_message),
        Err(_) => Err("engine still shared after the scope ended".to_string()),
    };
    match retag {
        Ok((h, bad)) => {
            res["retag_digest"] = json!(format!("{:016x}", h));
            res["after_tag_switch_mismatches"] = json!(bad);
        }
        Err(m) => res["retag_error"] = json!(m),
    }
    if full {
        res["seq_answers"] = json!(seq_answers);
    }
    if spec.mode == Mode::Pure {
        // the bits of the first answers of every thread (enough for the ticket prefix) and the cache
        let keep = prefix.min(spec.queries);
        res["conc_bits"] = json!(outs.iter().map(|(_, o)| o.bits.iter().take(keep).cloned().collect::<Vec<bool>>()).collect::<Vec<_>>());
        res["seq_bits"] = json!(seq_bits.iter().map(|b| b.iter().take(keep).cloned().collect::<Vec<bool>>()).collect::<Vec<_>>());
        res["cache"] = json!(snap.iter().map(|e| json!([if e.0 == usize::MAX { -1 } else { e.0 as i64 }, e.1, e.2])).collect::<Vec<_>>());
    }
    res
}

fn main() {
    let argv: Vec<String> = std::env::args().collect();
    let mut plan = None;
    let mut out = None;
    let mut i = 1;
    while i < argv.len() {
        match argv[i].as_str() {
            "--plan" => {
                plan = Some(argv[i + 1].clone());
                i += 1
            }
            "--out" => {
                out = Some(argv[i + 1].clone());
                i += 1
            }
            _ => {}
        }
        i += 1;
    }
    let plan: Value = serde_json::from_str(&std::fs::read_to_string(plan.expect("--plan")).expect("plan file")).expect("plan json");
    let out = out.expect("--out");
    // silence the default panic hook: panics inside worker threads are caught and reported
    std::panic::set_hook(Box::new(|_| {}));
    let stall_s = plan["stall_seconds"].as_u64().unwrap_or(60);
    let op_s = plan["op_seconds"].as_u64().unwrap_or(60);
    let progress = Arc::new(AtomicU64::new(0));
    let phase = Arc::new(AtomicU64::new(0));
    {
        // watchdog: no query finished anywhere for `stall_s` seconds while a run is in progress
        let (progress, phase) = (Arc::clone(&progress), Arc::clone(&phase));
        std::thread::spawn(move || {
            let mut last = (u64::MAX, u64::MAX);
            let mut since = Instant::now();
            loop {
                std::thread::sleep(Duration::from_millis(500));
                // an operation of a policy run that does not return
                let stuck: Vec<Value> = {
                    let g = INFLIGHT.lock().unwrap_or_else(|e| e.into_inner());
                    if g.iter().any(|x| x.3.elapsed() > Duration::from_secs(op_s)) {
                        let mut v: Vec<&(u64, usize, usize, Instant, String)> = g.iter().collect();
                        v.sort_by_key(|x| x.3);
                        v.iter().map(|x| json!({"run": x.1, "thread": if x.2 == usize::MAX { -1 } else { x.2 as i64 }, "seconds": x.3.elapsed().as_secs(), "op": x.4})).collect()
                    } else {
                        vec![]
                    }
                };
                if !stuck.is_empty() {
                    for s in &stuck {
                        eprintln!("C19-STUCK {}", s);
                    }
                    eprintln!("C19-WATCHDOG: an operation did not return within {} s: deadlock or livelock", op_s);
                    std::process::exit(3);
                }
                let now = (phase.load(Ordering::SeqCst), progress.load(Ordering::SeqCst));
                if now != last {
                    last = now;
                    since = Instant::now();
                } else if since.elapsed() > Duration::from_secs(stall_s) {
                    for x in INFLIGHT.lock().unwrap_or_else(|e| e.into_inner()).iter() {
                        eprintln!("C19-STUCK {}", json!({"run": x.1, "thread": if x.2 == usize::MAX { -1 } else { x.2 as i64 }, "seconds": x.3.elapsed().as_secs(), "op": x.4}));
                    }
                    eprintln!("C19-WATCHDOG: no progress for {} s ({} runs started, {} queries answered): deadlock or livelock", stall_s, now.0, now.1);
                    std::process::exit(3);
                }
            }
        });
    }
    let runs: Vec<Value> = plan["runs"].as_array().expect("runs").clone();
    let parallel = plan["parallel"].as_u64().unwrap_or(1).max(1) as usize;
    let next = AtomicUsize::new(0);
    let results_m: Mutex<Vec<(usize, u64, Value)>> = Mutex::new(vec![]);
    std::thread::scope(|sc| {
        for _ in 0..parallel.min(runs.len().max(1)) {
            let (runs, next, results_m, progress, phase) = (&runs, &next, &results_m, &progress, &phase);
            sc.spawn(move || loop {
                let ri = next.fetch_add(1, Ordering::SeqCst);
                if ri >= runs.len() {
                    break;
                }
                let r = &runs[ri];
                let spec = RunSpec {
                    seed: r["seed"].as_u64().unwrap(),
                    mode: Mode::parse(r["mode"].as_str().unwrap_or("rich")),
                    threads: r["threads"].as_u64().unwrap() as usize,
                    queries: r["queries"].as_u64().unwrap() as usize,
                };
                let prefix = r["prefix"].as_u64().unwrap_or(0) as usize;
                let noise = r["noise"].as_bool().unwrap_or(true);
                let full = r["full"].as_bool().unwrap_or(false);
                let repeat = r["repeat"].as_u64().unwrap_or(1);
                let policy = r.get("policy").filter(|p| p.is_object()).map(|p| policy_plan(spec.seed, spec.queries, p["full"].as_bool().unwrap_or(false), p["per"].as_u64().unwrap_or(4) as usize));
                for k in 0..repeat {
                    phase.fetch_add(1, Ordering::SeqCst);
                    let mut v = run_one(ri, &spec, prefix, noise, full, policy.as_ref(), progress);
                    v["run"] = json!(ri);
                    results_m.lock().unwrap().push((ri, k, v));
                }
            });
        }
    });
    let mut results = results_m.into_inner().unwrap();
    results.sort_by_key(|(a, b, _)| (*a, *b));
    let results: Vec<Value> = results.into_iter().map(|(_, _, v)| v).collect();
    std::fs::write(&out, serde_json::to_string(&json!({"results": results})).unwrap()).expect("write results");
}
