//! C19 — code shared by the two builds of the crate under test:
//!   * /verif/harness_sync/src/main.rs   (thread-safe build: Mutex regex cell, N threads)
//!   * /verif/harness/src/bin/c19.rs     (default build: RefCell regex cell, one thread)
//! (included by `#[path]`, so both sides generate exactly the same rules and queries from a run
//! seed and canonicalise answers in exactly the same way).  Depends on `adblock` and std only.
#![allow(dead_code)]

use adblock::lists::ParseOptions;
use adblock::regex_manager::RegexManagerDiscardPolicy;
use adblock::request::Request;
use adblock::resources::{MimeType, Resource, ResourceType};
use adblock::Engine;
use std::time::Duration;

// ---------------------------------------------------------------- PRNG (splitmix64, as implrun::Rng)
#[derive(Clone)]
pub struct XRng {
    pub s: u64,
    /// generator parameter carried along: size of the word vocabulary
    pub vocab: usize,
}
impl XRng {
    pub fn new(seed: u64) -> Self {
        XRng { s: seed ^ 0x9E37_79B9_7F4A_7C15, vocab: usize::MAX }
    }
    pub fn next(&mut self) -> u64 {
        self.s = self.s.wrapping_add(0x9E37_79B9_7F4A_7C15);
        let mut z = self.s;
        z = (z ^ (z >> 30)).wrapping_mul(0xBF58_476D_1CE4_E5B9);
        z = (z ^ (z >> 27)).wrapping_mul(0x94D0_49BB_1331_11EB);
        z ^ (z >> 31)
    }
    pub fn below(&mut self, n: usize) -> usize {
        if n == 0 {
            0
        } else {
            (self.next() % n as u64) as usize
        }
    }
    pub fn chance(&mut self, num: usize, den: usize) -> bool {
        self.below(den) < num
    }
    pub fn pick<T: Copy>(&mut self, v: &[T]) -> T {
        v[self.below(v.len())]
    }
    pub fn range(&mut self, lo: usize, hi: usize) -> usize {
        lo + self.below(hi - lo + 1)
    }
}

// ---------------------------------------------------------------- run description
#[derive(Clone, Copy, PartialEq, Debug)]
pub enum Mode {
    /// every kind of rule (exceptions, important, redirect, removeparam, csp, generichide, tags,
    /// cosmetic); most patterns are regex patterns.  Oracle only.
    Rich,
    /// only option-free regex rules of three kinds (block / csp / generichide), unoptimized, so
    /// that an answer is one bit = "some consulted regex rule matched".  Oracle + model replay.
    Pure,
}
impl Mode {
    pub fn name(self) -> &'static str {
        match self {
            Mode::Rich => "rich",
            Mode::Pure => "pure",
        }
    }
    pub fn parse(s: &str) -> Mode {
        if s == "pure" {
            Mode::Pure
        } else {
            Mode::Rich
        }
    }
}

#[derive(Clone, Debug)]
pub struct RunSpec {
    pub seed: u64,
    pub mode: Mode,
    pub threads: usize,
    pub queries: usize,
}

#[derive(Clone, Copy, PartialEq, Debug)]
pub enum QKind {
    Network,
    /// check_network_request_subset(req, matched_rule, force_check_exceptions)
    NetworkSubset(bool, bool),
    Csp,
    Cosmetic,
}

#[derive(Clone, Debug)]
pub struct Query {
    pub kind: QKind,
    pub url: String,
    pub source: String,
    pub rtype: &'static str,
}
impl Query {
    pub fn describe(&self) -> String {
        format!("{:?} url={} source={} type={}", self.kind, self.url, self.source, self.rtype)
    }
    /// 0 network, 1 csp, 2 generichide (the model's qkind)
    pub fn kind_code(&self) -> u8 {
        match self.kind {
            QKind::Network | QKind::NetworkSubset(..) => 0,
            QKind::Csp => 1,
            QKind::Cosmetic => 2,
        }
    }
}

pub struct Workload {
    pub rules: Vec<String>,
    pub optimize: bool,
    pub tags: Vec<&'static str>,
    pub queries: Vec<Vec<Query>>,
    /// all distinct (url, source, type) requests of the run
    pub n_regex_rules: usize,
}

const WORDS: &[&str] = &["ads", "ad", "banner", "track", "pixel", "img", "js", "foo", "bar", "a1", "x", "promo"];
const HOSTS: &[&str] = &[
    "ads.net", "xads.net", "foo.com", "sub.foo.com", "example.com", "www.example.com", "track.net",
    "x.com", "a.b.example.co.uk", "cdn.example.net",
];
const TYPES: &[&str] = &["script", "image", "xhr", "document", "subdocument", "stylesheet", "other", "websocket"];
const PARAMS: &[&str] = &["utm", "fbclid", "id", "ref"];
const CSPS: &[&str] = &["script-src 'none'", "img-src 'self'", "frame-src x.com", "default-src *"];

/// Words are drawn from the first `r.vocab` entries: a small vocabulary makes rules and URLs collide.
fn word(r: &mut XRng) -> &'static str {
    let n = r.vocab.clamp(1, WORDS.len());
    WORDS[r.below(n)]
}

/// A pattern that compiles to a regex (contains `*` or a non-final `^`, or is a /regex/).
fn regex_pattern(r: &mut XRng) -> String {
    match r.below(8) {
        0 => format!("/{}*{}^", word(r), word(r)),
        1 => format!("/{}^{}*", word(r), word(r)),
        2 => format!("||{}/{}*{}^", r.pick(HOSTS), word(r), word(r)),
        3 => format!("||{}^*{}", r.pick(HOSTS), word(r)),
        4 => format!("|https://*{}^{}", word(r), word(r)),
        5 => format!("/{}[0-9a-z]*\\/{}/", word(r), word(r)),
        6 => format!("{}*{}*{}", word(r), word(r), word(r)),
        // a remainder that can match the EMPTY text after the host (`https://host` without a path)
        7 if r.chance(1, 2) => format!("||{}{}", r.pick(HOSTS), r.pick(&["^*", "*^", "^*^"])),
        _ => format!("-{}^*{}.", word(r), word(r)),
    }
}

fn plain_pattern(r: &mut XRng) -> String {
    match r.below(4) {
        0 => format!("||{}^", r.pick(HOSTS)),
        1 => format!("/{}/{}", word(r), word(r)),
        2 => format!("||{}/{}", r.pick(HOSTS), word(r)),
        _ => format!("{}-{}.", word(r), word(r)),
    }
}

fn gen_url(r: &mut XRng) -> String {
    let mut s = format!("{}://{}", r.pick(&["https", "https", "http", "wss"]), r.pick(HOSTS));
    // a URL that ends with its host (nothing after the authority)
    if r.chance(1, 12) {
        return s;
    }
    // a very long URL: filler of 2-5 KiB in front of the words a rule may look for (a matcher that
    // looks at a bounded prefix only would miss them)
    if r.chance(1, 14) {
        s.push_str("/l");
        let n = r.pick(&[2040usize, 2100, 4200, 5000]);
        for _ in 0..n / 10 { s.push_str("0123456789"); }
    }
    let n = r.range(1, 4);
    // a tenth of the URLs spell their words with upper-case letters (matching is case-insensitive)
    let upper = r.chance(1, 10);
    for _ in 0..n {
        s.push_str(r.pick(&["/", "/", "/", "-", ".", "_", "/-"]));
        let w = word(r);
        if upper {
            let mut c = w.chars();
            if r.chance(1, 2) { s.push_str(&w.to_uppercase()) } else if let Some(f) = c.next() { s.push_str(&f.to_uppercase().collect::<String>()); s.push_str(c.as_str()) }
        } else {
            s.push_str(w);
        }
        if r.chance(1, 5) {
            s.push_str(&format!("{}", r.below(100)));
        }
    }
    match r.below(6) {
        0 => s.push_str(".js"),
        1 => s.push('/'),
        2 => {
            s.push('?');
            let k = r.range(1, 3);
            for i in 0..k {
                if i > 0 {
                    s.push('&');
                }
                s.push_str(&format!("{}={}", r.pick(PARAMS), r.below(50)));
            }
        }
        _ => {}
    }
    s
}

fn gen_rules(r: &mut XRng, mode: Mode) -> (Vec<String>, usize) {
    let mut rules: Vec<String> = vec![];
    let mut n_regex = 0;
    match mode {
        Mode::Pure => {
            let n = r.range(6, 16);
            let mut tries = 0;
            while rules.len() < n && tries < 200 {
                tries += 1;
                let p = regex_pattern(r);
                let line = match r.below(5) {
                    0 => format!("{}$csp={}", p, r.pick(CSPS)),
                    1 => format!("@@{}$generichide", p),
                    _ => p,
                };
                if rules.contains(&line) || !is_pure_regex_rule(&line) {
                    continue;
                }
                rules.push(line);
            }
            n_regex = rules.len();
        }
        Mode::Rich => {
            let n = r.range(40, 120);
            for _ in 0..n {
                let regex = r.chance(4, 5);
                let p = if regex { regex_pattern(r) } else { plain_pattern(r) };
                if regex {
                    n_regex += 1;
                }
                let mut opts: Vec<String> = vec![];
                let mut prefix = "";
                match r.below(16) {
                    0 | 1 => prefix = "@@",
                    2 => opts.push("important".into()),
                    3 => opts.push(format!("csp={}", r.pick(CSPS))),
                    4 => {
                        prefix = "@@";
                        opts.push(if r.chance(1, 2) { "csp".to_string() } else { format!("csp={}", r.pick(CSPS)) })
                    }
                    5 => {
                        prefix = "@@";
                        opts.push("generichide".into());
                        // half of them tagged: active iff the tag is among the enabled ones
                        if r.chance(1, 2) {
                            opts.push(format!("tag={}", r.pick(&["t1", "t2"])));
                        }
                    }
                    6 => opts.push(format!("removeparam={}", r.pick(PARAMS))),
                    7 => opts.push(format!("redirect={}", r.pick(&["noop.js", "noop.js:10", "1x1.gif", "missing.js"]))),
                    8 => opts.push(format!("redirect-rule={}", r.pick(&["noop.js", "1x1.gif"]))),
                    9 => opts.push(format!("tag={}", r.pick(&["t1", "t2"]))),
                    10 => {
                        prefix = "@@";
                        opts.push(format!("redirect-rule={}", r.pick(&["noop.js", "1x1.gif"])))
                    }
                    _ => {}
                }
                if r.chance(1, 4) {
                    opts.push(r.pick(&["script", "image", "xhr", "~script", "third-party", "~third-party", "match-case"]).to_string());
                }
                if r.chance(1, 6) {
                    opts.push(format!("domain={}", r.pick(&["foo.com", "example.com|~www.example.com", "x.com|ads.net", "~foo.com"])));
                }
                if opts.is_empty() {
                    rules.push(format!("{}{}", prefix, p));
                } else {
                    rules.push(format!("{}{}${}", prefix, p, opts.join(",")));
                }
            }
            // cosmetic rules, so that url_cosmetic_resources has something to return
            let nc = r.range(5, 20);
            for _ in 0..nc {
                let h = r.pick(HOSTS);
                rules.push(match r.below(6) {
                    0 => format!("##.{}", word(r)),
                    1 => format!("{}##.{}", h, word(r)),
                    2 => format!("{}#@#.{}", h, word(r)),
                    3 => format!("{}###{}-{}", h, word(r), word(r)),
                    4 => format!("{}##+js(noop-scriptlet, {})", h, word(r)),
                    _ => format!("{},~www.{}##div.{}:has(> .{})", h, h, word(r), word(r)),
                });
            }
        }
    }
    (rules, n_regex)
}

/// Pure-mode admission test: the rule parses to a network rule whose pattern goes through the
/// regex manager (so the usage counters of the cache see every evaluation of its pattern).
pub fn is_pure_regex_rule(line: &str) -> bool {
    use adblock::filters::network::{NetworkFilter, NetworkFilterMaskHelper};
    match NetworkFilter::parse(line, true, ParseOptions::default()) {
        Ok(f) => f.is_regex() || f.is_complete_regex(),
        Err(_) => false,
    }
}

pub fn gen_workload(spec: &RunSpec) -> Workload {
    let mut r = XRng::new(spec.seed);
    r.vocab = if spec.mode == Mode::Pure { r.range(3, 6) } else { r.range(6, 12) };
    let (mut rules, n_regex_rules) = gen_rules(&mut r, spec.mode);
    let mut optimize = spec.mode == Mode::Rich && r.chance(1, 2);
    // one rich run in six holds a fusion group of several hundred wildcard rules (one shared token,
    // same options): optimised, they become ONE regex set of that many members
    let big_group = if spec.mode == Mode::Rich && r.chance(1, 6) { r.range(450, 700) } else { 0 };
    for i in 0..big_group {
        rules.push(format!("/bigfuse/*item{}x.gif", i));
    }
    if big_group > 0 {
        optimize = true;
    }
    let tags: Vec<&'static str> = if spec.mode == Mode::Rich {
        match r.below(3) {
            0 => vec![],
            1 => vec!["t1"],
            _ => vec!["t1", "t2"],
        }
    } else {
        vec![]
    };
    // a small pool of requests so that different threads ask the same things at the same time
    let pool_n = r.range(8, 40);
    let pool: Vec<(String, String, &'static str)> = (0..pool_n)
        .map(|_| {
            let url = gen_url(&mut r);
            let source = if r.chance(1, 8) { String::new() } else { format!("https://{}/page", r.pick(HOSTS)) };
            (url, source, r.pick(TYPES))
        })
        .collect();
    let mut pool = pool;
    for k in 0..(if big_group > 0 { 6 } else { 0 }) {
        let i = r.below(big_group + 20);
        pool.push((format!("https://{}/bigfuse/q{}/item{}x.gif", r.pick(HOSTS), k, i), format!("https://{}/page", r.pick(HOSTS)), "image"));
    }
    let mut queries = vec![];
    for _ in 0..spec.threads {
        let mut qs = Vec::with_capacity(spec.queries);
        for _ in 0..spec.queries {
            let (url, source, ty) = pool[r.below(pool.len())].clone();
            let kind = match r.below(10) {
                0 | 1 => QKind::Csp,
                2 | 3 => QKind::Cosmetic,
                4 if spec.mode == Mode::Rich => QKind::NetworkSubset(r.chance(1, 2), r.chance(1, 2)),
                _ => QKind::Network,
            };
            let rtype = match kind {
                QKind::Csp => r.pick(&["document", "subdocument", "document", "script"]),
                _ => ty,
            };
            qs.push(Query { kind, url, source, rtype });
        }
        queries.push(qs);
    }
    Workload { rules, optimize, tags, queries, n_regex_rules }
}

/// Discard policies used during a run: cleanup on (almost) every lock acquisition, and every
/// regex that was not used in this very instant is discarded ("zero-second" policy; the interval
/// is 1 ns because a zero interval switches cleanup off).
pub fn aggressive_policy() -> RegexManagerDiscardPolicy {
    RegexManagerDiscardPolicy { cleanup_interval: Duration::from_nanos(1), discard_unused_time: Duration::from_secs(0) }
}
/// Cleanup still runs at every acquisition but discards nothing (used after the run, so that the
/// final dump shows compiled regexes).
pub fn lenient_policy() -> RegexManagerDiscardPolicy {
    RegexManagerDiscardPolicy { cleanup_interval: Duration::from_nanos(1), discard_unused_time: Duration::from_secs(3600) }
}
/// How many queries of every thread are repeated after the run (post phase).
pub const POST_QUERIES: usize = 2;
pub fn mild_policy() -> RegexManagerDiscardPolicy {
    RegexManagerDiscardPolicy { cleanup_interval: Duration::from_nanos(1), discard_unused_time: Duration::from_micros(500) }
}

// ---------------------------------------------------------------- extreme and changing discard policies
/// The durations both fields of a `RegexManagerDiscardPolicy` are drawn from, in increasing order.
pub const EXTREME_NAMES: &[&str] = &["0", "1ns", "1ms", "1s", "1h", "u64::MAX/2 s", "Duration::MAX"];
pub fn extreme(i: usize) -> Duration {
    match i {
        0 => Duration::from_secs(0),
        1 => Duration::from_nanos(1),
        2 => Duration::from_millis(1),
        3 => Duration::from_secs(1),
        4 => Duration::from_secs(3600),
        5 => Duration::from_secs(u64::MAX / 2),
        _ => Duration::MAX,
    }
}

/// One policy change of a policy run.  Phase k covers the queries k*per .. (k+1)*per of every thread.
#[derive(Clone, Debug)]
pub struct Phase {
    /// index into EXTREME_NAMES of cleanup_interval / discard_unused_time
    pub ci: usize,
    pub du: usize,
    /// the policy is set twice in a row (two calls, no query of the setter in between)
    pub twice: bool,
    /// the setter sets the policy once more in the middle of its slice of queries
    pub mid: bool,
    /// sequential walk only: through `Engine::set_regex_discard_policy(&mut self)` instead of
    /// `Blocker::set_regex_discard_policy(&self)`
    pub via_engine: bool,
}
impl Phase {
    pub fn policy(&self) -> RegexManagerDiscardPolicy {
        RegexManagerDiscardPolicy { cleanup_interval: extreme(self.ci), discard_unused_time: extreme(self.du) }
    }
    pub fn describe(&self) -> String {
        format!(
            "cleanup_interval={} discard_unused_time={}{}{}",
            EXTREME_NAMES[self.ci.min(6)],
            EXTREME_NAMES[self.du.min(6)],
            if self.twice { " (set twice in a row)" } else { "" },
            if self.mid { " (set again between the setter's queries)" } else { "" }
        )
    }
}

#[derive(Clone, Debug)]
pub struct PolicyPlan {
    pub script: Vec<Phase>,
    /// queries of every thread per phase
    pub per: usize,
}

/// A closed walk through all 49 ordered pairs (a, b) of the 7 durations, every pair once: 50
/// values v0..v49 such that every "b after a" (shorter after longer, longer after shorter, the same
/// twice) occurs exactly once as (v_i, v_i+1).  Randomised Hierholzer on the complete digraph with loops.
pub fn euler_walk(r: &mut XRng) -> Vec<usize> {
    const N: usize = 7;
    let mut out: Vec<Vec<usize>> = (0..N)
        .map(|_| {
            let mut v: Vec<usize> = (0..N).collect();
            for i in (1..N).rev() {
                let j = r.below(i + 1);
                v.swap(i, j);
            }
            v
        })
        .collect();
    let mut stack = vec![r.below(N)];
    let mut walk = vec![];
    while let Some(&v) = stack.last() {
        match out[v].pop() {
            Some(w) => stack.push(w),
            None => {
                walk.push(v);
                stack.pop();
            }
        }
    }
    walk.reverse();
    walk
}

/// The script of a policy run, from the run seed.  `full`: 50 phases, both fields walk through all
/// 49 ordered pairs of durations (independent walks); otherwise `n` random phases.
pub fn policy_plan(seed: u64, queries: usize, full: bool, per: usize) -> PolicyPlan {
    let mut r = XRng::new(seed ^ 0x00D1_5CA2_D000);
    let per = per.max(1);
    let n = (queries / per).max(1);
    let (cis, dus): (Vec<usize>, Vec<usize>) = if full {
        (euler_walk(&mut r), euler_walk(&mut r))
    } else {
        ((0..n).map(|_| r.below(7)).collect(), (0..n).map(|_| r.below(7)).collect())
    };
    let script = (0..n)
        .map(|k| Phase { ci: cis[k % cis.len()], du: dus[k % dus.len()], twice: r.chance(1, 4), mid: r.chance(1, 3), via_engine: r.chance(1, 2) })
        .collect();
    PolicyPlan { script, per }
}

fn panic_text(p: Box<dyn std::any::Any + Send>) -> String {
    if let Some(s) = p.downcast_ref::<&str>() {
        s.to_string()
    } else if let Some(s) = p.downcast_ref::<String>() {
        s.clone()
    } else {
        "panic".to_string()
    }
}

/// Set the policy of one phase on an exclusively owned engine; Err = the call panicked.
pub fn set_phase_policy(e: &mut Engine, ph: &Phase) -> Result<(), String> {
    let calls = if ph.twice { 2 } else { 1 };
    for _ in 0..calls {
        let r = std::panic::catch_unwind(std::panic::AssertUnwindSafe(|| {
            if ph.via_engine {
                e.set_regex_discard_policy(ph.policy())
            } else {
                e.verif_blocker().set_regex_discard_policy(ph.policy())
            }
        }));
        if let Err(p) = r {
            return Err(format!("set_regex_discard_policy({}) via {} panicked: {}", ph.describe(), if ph.via_engine { "Engine (&mut self)" } else { "Blocker (&self)" }, panic_text(p)));
        }
    }
    Ok(())
}

/// The sequential walk of a policy run on ONE thread: for every phase set the policy (before any
/// query for phase 0, between queries afterwards), then answer the phase's slice of every thread's
/// list.  Returns the answers per thread list (same indexing as `Workload::queries`; a panic is the
/// answer "PANIC: ..") and the panics of the policy calls.  `on_op(Some(what))` is called before
/// every policy call and every slice of queries, `on_op(None)` when it has returned (watchdog hook).
pub fn policy_sequential(e: &mut Engine, w: &Workload, plan: &PolicyPlan, on_op: &mut dyn FnMut(Option<String>)) -> (Vec<Vec<String>>, Vec<String>) {
    let mut answers: Vec<Vec<String>> = w.queries.iter().map(|qs| Vec::with_capacity(qs.len())).collect();
    let mut set_panics = vec![];
    let n_q = w.queries.iter().map(|q| q.len()).max().unwrap_or(0);
    let mut k = 0;
    while k * plan.per < n_q {
        let ph = &plan.script[k.min(plan.script.len() - 1)];
        let via = if ph.via_engine { "Engine (&mut self)" } else { "Blocker (&self)" };
        let mut set = |e: &mut Engine, at: &str, set_panics: &mut Vec<String>, on_op: &mut dyn FnMut(Option<String>)| {
            on_op(Some(format!("sequential walk, phase {}: set_regex_discard_policy({}) via {} {}", k, ph.describe(), via, at)));
            if let Err(m) = set_phase_policy(e, ph) {
                set_panics.push(format!("phase {} {}: {}", k, at, m));
            }
            on_op(None);
        };
        set(e, if k == 0 { "before the first query" } else { "between queries" }, &mut set_panics, on_op);
        for (ti, qs) in w.queries.iter().enumerate() {
            let lo = (k * plan.per).min(qs.len());
            let hi = ((k + 1) * plan.per).min(qs.len());
            let mid = if ph.mid && ti == 0 && hi > lo + 1 { lo + (hi - lo) / 2 } else { hi };
            on_op(Some(format!("sequential walk, phase {}: queries {}..{} of thread list {} under policy {}", k, lo, hi, ti, ph.describe())));
            answers[ti].extend(run_sequential(e, &qs[lo..mid], true).1);
            on_op(None);
            if mid < hi {
                set(e, "between the queries of one slice", &mut set_panics, on_op);
                on_op(Some(format!("sequential walk, phase {}: queries {}..{} of thread list {} under policy {}", k, mid, hi, ti, ph.describe())));
                answers[ti].extend(run_sequential(e, &qs[mid..hi], true).1);
                on_op(None);
            }
        }
        k += 1;
    }
    (answers, set_panics)
}

/// Chained digest of a list of canonical answers (what `run_sequential` computes on the fly).
pub fn digest_of(answers: &[String]) -> u64 {
    answers.iter().fold(FNV0, |h, a| fnv(h, a))
}

pub fn build_engine(w: &Workload) -> Engine {
    let mut e = Engine::from_rules_parametrised(w.rules.iter(), ParseOptions::default(), true, w.optimize);
    // (Resource::simple is test-only; contents are base64 of "(function() {})()", "GIF89a",
    // "console.log('{{1}}')")
    let res = |name: &str, kind: MimeType, b64: &str| Resource {
        name: name.to_string(),
        aliases: vec![],
        kind: ResourceType::Mime(kind),
        content: b64.to_string(),
        dependencies: vec![],
        permission: Default::default(),
    };
    e.use_resources([
        res("noop.js", MimeType::ApplicationJavascript, "KGZ1bmN0aW9uKCkge30pKCk="),
        res("1x1.gif", MimeType::ImageGif, "R0lGODlh"),
        res("noop-scriptlet.js", MimeType::ApplicationJavascript, "Y29uc29sZS5sb2coJ3t7MX19Jyk="),
    ]);
    if !w.tags.is_empty() {
        e.use_tags(&w.tags);
    }
    e.set_regex_discard_policy(aggressive_policy());
    e
}

fn sorted(s: &std::collections::HashSet<String>) -> Vec<String> {
    let mut v: Vec<String> = s.iter().cloned().collect();
    v.sort();
    v
}

/// One query on the engine; the answer as a canonical string (hash-set iteration orders removed)
/// plus the one-bit abstraction used by the model (network: matched, csp: Some, cosmetic:
/// generichide).
pub fn answer(e: &Engine, q: &Query) -> (String, bool) {
    match q.kind {
        QKind::Network | QKind::NetworkSubset(..) => {
            let req = match Request::new(&q.url, &q.source, q.rtype) {
                Ok(r) => r,
                Err(_) => return ("N:request-error".into(), false),
            };
            let r = match q.kind {
                QKind::NetworkSubset(m, f) => e.check_network_request_subset(&req, m, f),
                _ => e.check_network_request(&req),
            };
            (
                format!(
                    "N:m={} i={} red={:?} rw={:?} ex={:?} f={:?}",
                    r.matched, r.important, r.redirect, r.rewritten_url, r.exception, r.filter
                ),
                r.matched,
            )
        }
        QKind::Csp => {
            let req = match Request::new(&q.url, &q.source, q.rtype) {
                Ok(r) => r,
                Err(_) => return ("C:request-error".into(), false),
            };
            match e.get_csp_directives(&req) {
                None => ("C:none".into(), false),
                Some(s) => {
                    let mut parts: Vec<&str> = s.split(',').collect();
                    parts.sort();
                    (format!("C:{}", parts.join(",")), true)
                }
            }
        }
        QKind::Cosmetic => {
            let r = e.url_cosmetic_resources(&q.url);
            // the scriptlets of a page are emitted in the iteration order of a per-call HashSet
            // (std RandomState): the same engine gives the same blocks in varying order from one
            // call to the next, in any build and on one thread.  Canonical form: sorted blocks.
            let mut blocks: Vec<&str> = r.injected_script.split_inclusive("} catch ( e ) { }\n").collect();
            blocks.sort();
            (
                format!(
                    "H:gh={} hide={:?} proc={:?} exc={:?} js={:?}",
                    r.generichide,
                    sorted(&r.hide_selectors),
                    sorted(&r.procedural_actions),
                    sorted(&r.exceptions),
                    blocks
                ),
                r.generichide,
            )
        }
    }
}

pub fn fnv(mut h: u64, s: &str) -> u64 {
    for b in s.bytes() {
        h ^= b as u64;
        h = h.wrapping_mul(0x100000001b3);
    }
    h ^= 0xff;
    h.wrapping_mul(0x100000001b3)
}
pub const FNV0: u64 = 0xcbf29ce484222325;

/// Run one thread's queries in order on `e`; chained digest of the canonical answers, the answers
/// themselves when `keep`, and the bits.
pub fn run_sequential(e: &Engine, qs: &[Query], keep: bool) -> (u64, Vec<String>, Vec<bool>) {
    let mut h = FNV0;
    let mut v = vec![];
    let mut bits = Vec::with_capacity(qs.len());
    for q in qs {
        // a panic is an answer too ("PANIC: ..."): it is reported by the comparison, not by a crash
        let (a, b) = match std::panic::catch_unwind(std::panic::AssertUnwindSafe(|| answer(e, q))) {
            Ok(x) => x,
            Err(p) => {
                let m = if let Some(s) = p.downcast_ref::<&str>() {
                    s.to_string()
                } else if let Some(s) = p.downcast_ref::<String>() {
                    s.clone()
                } else {
                    "panic".to_string()
                };
                (format!("PANIC: {}", m), false)
            }
        };
        h = fnv(h, &a);
        bits.push(b);
        if keep {
            v.push(a);
        }
    }
    (h, v, bits)
}

/// rule index (position in `rules`) of every stored network rule, by address, and the regex text
/// the rule compiles to.
pub fn rule_addresses(e: &Engine, rules: &[String]) -> Vec<(u64, usize, String)> {
    use adblock::filters::network::{NetworkFilterMask, NetworkFilterMaskHelper};
    let d = adblock::verif_hooks::dump_engine_blocker(e);
    let mut out = vec![];
    for (_, buckets) in d.lists.iter() {
        for (_, fs) in buckets {
            for f in fs {
                let idx = match &f.raw_line {
                    Some(l) => rules.iter().position(|r| r == l),
                    None => None,
                };
                let mask = NetworkFilterMask::from_bits_truncate(f.mask);
                let parts: Vec<&str> = f.filter.iter().map(|s| s.as_str()).collect();
                let text = adblock::verif_hooks::compile_regex_text(
                    &parts,
                    mask.is_right_anchor(),
                    mask.is_left_anchor(),
                    mask.is_complete_regex(),
                );
                if !out.iter().any(|(a, _, _): &(u64, usize, String)| *a == f.addr) {
                    out.push((f.addr, idx.unwrap_or(usize::MAX), text));
                }
            }
        }
    }
    out
}

/// (rule index or usize::MAX, compiled?, text matches the rule's own regex, usage count) per cache entry
pub fn cache_snapshot(e: &Engine, addrs: &[(u64, usize, String)]) -> Vec<(usize, bool, bool, usize)> {
    let info = e.get_regex_debug_info();
    let mut v: Vec<(usize, bool, bool, usize)> = info
        .regex_data
        .iter()
        .map(|en| {
            let hit = addrs.iter().find(|(a, _, _)| *a == en.id);
            let idx = hit.map(|h| h.1).unwrap_or(usize::MAX);
            let ok = match (&en.regex, hit) {
                (Some(t), Some(h)) => *t == h.2,
                (Some(_), None) => false,
                (None, _) => true,
            };
            (idx, en.regex.is_some(), ok, en.usage_count)
        })
        .collect();
    v.sort();
    v
}

/// After the shared phase: exclusive (`&mut`) operations that take the lock through `&mut self`
/// (`use_tags` -> `tags_with_set` -> `borrow_regex_manager().clear()`), then the post queries once
/// more.  Digest of the canonical answers.
pub fn retag_and_query(e: &mut Engine, w: &Workload) -> u64 {
    e.use_tags(&["t2"]);
    let mut h = FNV0;
    for qs in &w.queries {
        for q in qs.iter().take(POST_QUERIES) {
            h = fnv(h, &answer(e, q).0);
        }
    }
    e.use_tags(&[]);
    for qs in &w.queries {
        for q in qs.iter().take(POST_QUERIES) {
            h = fnv(h, &answer(e, q).0);
        }
    }
    h
}
